"""C17 — myosin quantification is a normalised, linear window statistic of the image.

Real code: forsys.myosin.get_intensities (and read_myosin on a TIFF written to a temporary file), run on real
BigEdge objects of a real Frame (or hand-made BigEdges for the corpus witnesses) and an in-memory PIL image.

K (correspondence): the returned dictionary (keys in insertion order: exactly; values: 1e-9 relative), BigEdge.gt of
    every object after the call (1e-9 relative, per object), the number of band positions of get_interpolation
    (exactly) — against the Lean model Forsys.Myosin (driver op "myosin").  The model gets the image as rows of exact
    rationals, the interfaces as (object identity, vertex coordinates, float polyline length computed by the harness
    with IEEE hypot/sum) and the keyword arguments.
S (property oracle on the real code), clause by clause:
    window     without integration: value i = mean over the vertices of the median of the (2L+1)^2 array slice centred
               on the pixel containing the rescaled/offset vertex (exact rational arithmetic on the pixel array);
    band       with integration: value i = sum over the *distinct pixels* of the layered band / polyline length;
    linear     I(c*img) = c*I(img) un-normalised, I(c*img) = I(img) under 'average' (c a power of two for mode F,
               c = 3 on a base image arr//3 for mode L, so that the scaled image is exactly representable);
    uniform    uniformly bright image, no integration: all values equal the brightness (1 under 'average');
    average    normalize='average': the values average to one;
    keys/gt    keys are 0..n-1 in order, lst[i].gt == result[i] for every position i (also for repeated objects).
"""
import math
import os
import statistics
import tempfile
from fractions import Fraction

import numpy as np
from PIL import Image
from scipy import interpolate

import gen
import impl
from dump import rat, unrat

import forsys.myosin as fmyosin
import forsys.vertex as fvertex
import forsys.edge as fedge

REL = 1e-9            # K and S tolerance on intensities (measured worst deviation on the clean tree: ~3e-15, see notes)
SENTINEL = -12345.0   # value of BigEdge.gt before the call

LIST_KINDS = ["internal", "all", "repeat", "equal", "shuffled", "single", "repeat_equal"]
IMG_STYLES_F = ["random", "smooth", "sparse", "wide", "uniform"]
IMG_STYLES_L = ["random", "smooth", "binary", "uniform"]


# ----------------------------------------------------------------------------------------------- inputs

def make_array(case):
    rng = np.random.default_rng([int(case["seed"]), 77])
    W, H, mode, style = case["W"], case["H"], case["mode"], case["img"]
    yy, xx = np.mgrid[0:H, 0:W]
    if mode == "F":
        if style == "random":
            a = rng.random((H, W)) * 1000.0
        elif style == "smooth":
            a = 50.0 + 3.0 * xx + 1.5 * yy + 20.0 * np.sin(xx / 3.0) * np.cos(yy / 4.0) + rng.random((H, W))
        elif style == "sparse":
            a = np.where(rng.random((H, W)) < 0.25, rng.random((H, W)) * 500.0 + 1.0, 0.0)
        elif style == "wide":
            a = 10.0 ** (rng.random((H, W)) * 8.0 - 4.0)
        elif style == "uniform":
            a = np.full((H, W), float(np.float32(rng.random() * 300.0 + 0.5)))
        else:
            raise ValueError(style)
        return np.ascontiguousarray(a.astype(np.float32))
    if style == "random":
        a = rng.integers(0, 256, (H, W))
    elif style == "smooth":
        a = np.clip(20 + 2 * xx + yy + rng.integers(0, 12, (H, W)), 0, 255)
    elif style == "binary":
        a = np.where(rng.random((H, W)) < 0.4, 255, 0)
    elif style == "uniform":
        a = np.full((H, W), int(rng.integers(1, 256)))
    else:
        raise ValueError(style)
    return np.ascontiguousarray(a.astype(np.uint8))


class Built:
    """everything that must stay referenced while the real objects are in use"""
    pass


def build_tissue(case):
    """real Frame of a generated tissue + the keyword arguments that place it inside the image"""
    rng = np.random.default_rng(int(case["seed"]))
    W, H, L = case["W"], case["H"], case["layers"]
    m = L + 2                                   # margin: windows, ceil and layers stay inside the image
    b = Built()
    if case["kind"] == "lattice":
        nx, ny, k = case["nx"], case["ny"], case["k"]
        topo = gen.lattice_topo("square", nx, ny)
        q = max(1, min((W - 2 * m - 3) // (nx * (k + 1)), (H - 2 * m - 3) // (ny * (k + 1))))
        s = q * (k + 1)                         # integer pixels per cell: interior points fall on integer pixels
        bm = gen.build_mesh(topo, None, k=k, rng=None, param_mode="uniform", center_method="mean",
                            sim=gen.Similarity(0.0, float(s), 0j), quantize=0)
        kw = {"rescale": [1, 1], "offset": [m + int(rng.integers(0, 3)), m + int(rng.integers(0, 3))]}
    else:
        topo = gen.voronoi_topo(rng, case["sites"], case["kind"])
        if topo is None or topo.ncells() < 2:
            return None
        if case["placement"] == "kwargs":
            bm = gen.build_mesh(topo, None, k=case["k"], rng=rng, param_mode="random", center_method="mean",
                                vmap=(lambda i: 3 * i + 1))
            xs = [v.x for v in bm.vertices.values()]
            ys = [v.y for v in bm.vertices.values()]
            rx = (W - 2 * m) / (max(xs) - min(xs)) * float(rng.uniform(0.7, 1.0))
            ry = (H - 2 * m) / (max(ys) - min(ys)) * float(rng.uniform(0.7, 1.0))
            ox = m - min(xs) * rx + float(rng.uniform(0.0, (W - 2 * m) - rx * (max(xs) - min(xs))))
            oy = m - min(ys) * ry + float(rng.uniform(0.0, (H - 2 * m) - ry * (max(ys) - min(ys))))
            kw = {"rescale": [rx, ry], "offset": [ox, oy]}
        else:
            # coordinates already in pixels; default keyword arguments (or explicit integer ones)
            J = topo.J
            ext = max(np.ptp(J.real), np.ptp(J.imag))
            sc = (min(W, H) - 2 * m - 1) / ext * float(rng.uniform(0.75, 1.0))
            shift = complex(m + 0.5 - J.real.min() * sc, m + 0.5 - J.imag.min() * sc)
            bm = gen.build_mesh(topo, None, k=case["k"], rng=rng, param_mode="random", center_method="mean",
                                sim=gen.Similarity(0.0, sc, shift),
                                quantize=0 if case["placement"] == "pixels_int" else None)
            kw = {} if case["placement"] != "pixels_kw1" else {"rescale": [1, 1], "offset": [0, 0]}
    b.bm = bm
    b.frame = impl.make_frame(bm)
    b.kw = kw
    b.pool = list(b.frame.internal_big_edges)
    b.allb = [b.frame.big_edges[k] for k in b.frame.big_edges]
    return b


def build_hand(case):
    """hand-made BigEdges (corpus witnesses): polylines of vertices joined by mesh edges"""
    b = Built()
    b.vertices, b.edges, b.bes = {}, {}, []
    vid = eid = 0
    for bid, poly in enumerate(case["polylines"]):
        vs = []
        for (x, y) in poly:
            b.vertices[vid] = fvertex.Vertex(vid, float(x), float(y))
            vs.append(b.vertices[vid])
            vid += 1
        for p, q in zip(vs, vs[1:]):
            b.edges[eid] = fedge.SmallEdge(eid, p, q)
            eid += 1
        b.bes.append(impl.quiet(fedge.BigEdge, bid, vs))
    b.kw = {}
    if case.get("rescale") is not None:
        b.kw["rescale"] = case["rescale"]
    if case.get("offset") is not None:
        b.kw["offset"] = case["offset"]
    b.pool = list(b.bes)
    b.allb = list(b.bes)
    return b


def exact_points(be, kw):
    rx, ry = [Fraction(v) for v in kw.get("rescale", [1, 1])]
    ox, oy = [Fraction(v) for v in kw.get("offset", [0, 0])]
    return [(Fraction(v.x) * rx + ox, Fraction(v.y) * ry + oy) for v in be.vertices]


def float_points(be, kw):
    r = kw.get("rescale", [1, 1])
    o = kw.get("offset", [0, 0])
    return [((v.x * r[0]) + o[0], (v.y * r[1]) + o[1]) for v in be.vertices]


def float_exact_may_branch(be, kw, L, integrate):
    """inputs on which exact and IEEE arithmetic may legitimately take different pixels (rejected):
       a placed coordinate within 1e-9 of an integer that the float computation does not hit exactly, or an
       interpolated band coordinate whose float value (scipy's) truncates to another pixel than the exact one"""
    ex, fl = exact_points(be, kw), float_points(be, kw)
    for (px, py), (fx, fy) in zip(ex, fl):
        for p, f in ((px, fx), (py, fy)):
            if abs(p - round(p)) < Fraction(1, 10 ** 9) and not (p.denominator == 1 and Fraction(float(f)) == p):
                return "coordinate_tie"
    if integrate:
        for (p, q) in zip(fl, fl[1:]):
            v0 = [math.ceil(p[0]), math.ceil(p[1])]
            v1 = [math.ceil(q[0]), math.ceil(q[1])]
            axis = 0 if abs(v0[0] - v1[0]) > abs(v0[1] - v1[1]) else 1
            a0, a1, b0, b1 = v0[axis], v1[axis], v0[axis - 1], v1[axis - 1]
            if a0 == a1:
                continue
            kernel = interpolate.interp1d([a0, a1], [b0, b1], kind="linear")     # the trusted kernel itself
            for a in range(a0, a1, 1 if a0 < a1 else -1):
                exact = Fraction(b0) + Fraction((b1 - b0) * (a - a0), (a1 - a0))
                f = np.float64(kernel(a))
                for kk in range(-L, L + 1):
                    if int(f + np.int64(kk)) != math.floor(exact) + kk:
                        return "interp_tie"
    return None


def polyline_length(be, kw):
    fl = float_points(be, kw)
    return math.fsum(math.hypot(a[0] - c[0], a[1] - c[1]) for a, c in zip(fl, fl[1:]))


def make_list(case, b, rng, ck):
    """the list handed to get_intensities"""
    L, integrate = case["layers"], case["integrate"]

    def ok(be):
        why = float_exact_may_branch(be, b.kw, L, integrate)
        if why:
            ck.count("rejected_interface_" + why)
            return False
        if integrate and polyline_length(be, b.kw) == 0.0:
            ck.count("rejected_interface_zero_length")
            return False
        return True

    if case["type"] == "hand":
        return [b.bes[i] for i in case["order"] if ok(b.bes[i])]
    allb = [be for be in b.allb if ok(be)]
    pool = [be for be in b.pool if ok(be)] or allb        # tiny tissues have no internal interface
    kind = case["list"]
    if not pool:
        return []
    if kind == "internal":
        return pool
    if kind == "all":
        return allb
    if kind == "single":
        return [pool[int(rng.integers(len(pool)))]]
    if kind == "shuffled":
        idx = rng.permutation(len(allb))[: max(1, int(len(allb) * 0.7))]
        return [allb[int(i)] for i in idx]
    lst = list(pool)
    b.copies = []
    if kind in ("repeat", "repeat_equal"):
        for _ in range(int(rng.integers(1, 4))):
            lst.insert(int(rng.integers(0, len(lst) + 1)), pool[int(rng.integers(len(pool)))])
    if kind in ("equal", "repeat_equal"):
        for _ in range(int(rng.integers(1, 4))):
            src = pool[int(rng.integers(len(pool)))]
            cp = impl.quiet(fedge.BigEdge, src.big_edge_id, src.vertices)   # distinct object, equal as a dataclass value
            b.copies.append(cp)
            lst.insert(int(rng.integers(0, len(lst) + 1)), cp)
    return lst


# ----------------------------------------------------------------------------------------------- observation

def call(lst, arr, case, kw):
    """run the real get_intensities; returns (items, gts) or ('raises', name)"""
    img = Image.fromarray(arr)
    assert img.mode == case["mode"], img.mode
    for be in lst:
        be.gt = SENTINEL
    try:
        res = fmyosin.get_intensities(lst, img, case["integrate"], case["normalize"], case["layers"], **kw)
    except Exception as ex:   # noqa: BLE001
        return ("raises", type(ex).__name__ + ": " + str(ex)[:80])
    items = [(k, float(v)) for k, v in res.items()]
    gts = [float(be.gt) for be in lst]
    return (items, gts, [type(k).__name__ for k in res.keys()])


def close(a, b, scale):
    return abs(a - b) <= REL * max(abs(a), abs(b), 1e-6 * scale)


# ----------------------------------------------------------------------------------------------- oracle S

def frac(v):
    return Fraction(float(v))


def oracle_window(arr, be, kw, L):
    meds = []
    for (px, py) in exact_points(be, kw):
        cx, cy = math.floor(px), math.floor(py)
        win = arr[cy - L: cy + L + 1, cx - L: cx + L + 1]
        if win.shape != (2 * L + 1, 2 * L + 1) or cx - L < 0 or cy - L < 0:
            return None
        meds.append(statistics.median([frac(v) for v in win.ravel()]))
    return sum(meds) / len(meds)


def oracle_band(be, kw, L):
    """distinct pixels of the layered band"""
    fl = float_points(be, kw)
    pix = set()
    for (p, q) in zip(fl, fl[1:]):
        v0 = (math.ceil(p[0]), math.ceil(p[1]))
        v1 = (math.ceil(q[0]), math.ceil(q[1]))
        axis = 0 if abs(v0[0] - v1[0]) > abs(v0[1] - v1[1]) else 1
        a0, a1, b0, b1 = v0[axis], v1[axis], v0[1 - axis], v1[1 - axis]
        for a in range(a0, a1, 1 if a0 < a1 else -1):
            bb = Fraction(b0) + Fraction((b1 - b0) * (a - a0), (a1 - a0))
            c = (Fraction(a), bb) if axis == 0 else (bb, Fraction(a))
            for i in range(-L, L + 1):
                for j in range(-L, L + 1):
                    pix.add((math.floor(c[0]) + i, math.floor(c[1]) + j))
    return pix


def pix_sum(arr, cells):
    return sum(frac(arr[y, x]) for (x, y) in cells)


def oracle(ck, case, b, lst, arr, obs, stats):
    """the statement of the property evaluated on the outputs of the real code"""
    L, integrate, norm = case["layers"], case["integrate"], case["normalize"]
    n = len(lst)
    items, gts, _ = obs
    keys = [k for k, _ in items]
    vals = [v for _, v in items]
    scale = float(np.max(np.abs(arr))) if arr.size else 1.0
    # keys and write-back
    if keys != list(range(n)):
        ck.fail("keys are the list positions 0..n-1 in order", f"keys {keys[:8]} n={n}", case)
        return
    for i, be in enumerate(lst):
        if gts[i] != vals[i] and not close(gts[i], vals[i], scale):
            ck.fail("interface i of the list gets value i as reference value", f"position {i}: gt {gts[i]} value {vals[i]}", case)
            return
    # average normalisation
    if norm == "average":
        mv = math.fsum(vals) / n
        if abs(mv - 1.0) > REL * n:
            ck.fail("'average' normalisation: values average to one", f"mean {mv}", case)
    # un-normalised reference values (second run on the real code when the case is normalised)
    if norm is None:
        raw = vals
    else:
        o2 = call(lst, arr, dict(case, normalize=None), b.kw)
        if o2[0] == "raises":
            ck.fail("un-normalised run raises", o2[1], case)
            return
        raw = [v for _, v in o2[0]]
    # window / band statistic
    for i, be in enumerate(lst):
        if not integrate:
            want = oracle_window(arr, be, b.kw, L)
            if want is None:
                ck.count("oracle_window_outside")
                continue
            stats["dev"] = max(stats["dev"], abs(float(want) - raw[i]) / max(abs(raw[i]), 1e-6 * scale, 1e-300))
            if not close(float(want), raw[i], scale):
                ck.fail("without integration: mean over vertices of the median of the (2L+1)^2 window", f"interface {i}: code {raw[i]} window statistic {float(want)}", case)
                break
        else:
            pix = oracle_band(be, b.kw, L)
            length = polyline_length(be, b.kw)
            want = float(pix_sum(arr, pix)) / length
            if close(want, raw[i], scale):
                stats["dev"] = max(stats["dev"], abs(want - raw[i]) / max(abs(raw[i]), 1e-6 * scale, 1e-300))
                ck.count("S_band_interfaces_ok")
                continue
            # (defect D22, repaired in 5a78257: the band was a set of float positions and pixels were summed more than
            #  once; corpus/C17/fractional_band.json.  A regression is an ordinary failure.)
            ck.fail("with integration: sum of the distinct pixels of the band / polyline length",
                    f"interface {i}: code {raw[i]} distinct-pixel statistic {want} ({len(pix)} pixels)", case)
            break
    # uniform image
    if case["img"] == "uniform" and not integrate:
        k = float(arr.flat[0])
        target = k if norm is None else 1.0
        bad = [i for i, v in enumerate(vals) if not close(v, target, target)]
        if bad:
            ck.fail("uniformly bright image: all interfaces get the same value", f"positions {bad[:5]}: {[vals[i] for i in bad[:5]]} brightness {k}", case)
        ck.count("S_uniform_checked")
    # linearity
    if case.get("linear"):
        if case["mode"] == "F":
            c = [2.0, 0.5, 4.0][int(case["seed"]) % 3]
            base, scaled = arr, (arr * np.float32(c)).astype(np.float32)
        else:
            c = 3.0
            base = (arr // 3).astype(np.uint8)
            scaled = (base * 3).astype(np.uint8)
        ob = call(lst, base, case, b.kw)
        os_ = call(lst, scaled, case, b.kw)
        if ob[0] == "raises" or os_[0] == "raises":
            if norm == "average" and not np.any(base):
                ck.count("linear_skipped_zero_image")
            else:
                ck.fail("scaled image raises", str(ob if ob[0] == "raises" else os_), case)
        else:
            f = 1.0 if norm == "average" else c
            bad = [i for i, ((_, v0), (_, v1)) in enumerate(zip(ob[0], os_[0])) if not close(f * v0, v1, scale * c)]
            if bad:
                i = bad[0]
                ck.fail("intensities scale linearly with the image", f"factor {c} normalize {norm}: position {i}: {ob[0][i][1]} -> {os_[0][i][1]}", case)
            ck.count("S_linearity_checked")


# ----------------------------------------------------------------------------------------------- K

def request(case, b, lst, arr, oid):
    kw = b.kw
    r = kw.get("rescale", [1, 1])
    o = kw.get("offset", [0, 0])
    if case["mode"] == "L":
        rows = [[int(v) for v in row] for row in arr]
    else:
        rows = [[rat(float(v)) for v in row] for row in arr]
    ifs = [[oid[id(be)], [[rat(v.x), rat(v.y)] for v in be.vertices], rat(polyline_length(be, kw))] for be in lst]
    return {"op": "myosin", "img": rows, "ifaces": ifs,
            "prm": [rat(r[0]), rat(r[1]), rat(o[0]), rat(o[1]), int(case["layers"])],
            "integrate": bool(case["integrate"]), "normalize": case["normalize"] or "none"}


def compare(ck, case, b, lst, arr, obs, oid, band_sizes, resp, stats):
    items, gts, keytypes = obs
    scale = float(np.max(np.abs(arr)))
    if resp["outside"] != 0:
        ck.count("case_reads_outside_image")
        return
    mitems = [(int(k), float(unrat(v))) for k, v in resp["items"]]
    if [k for k, _ in mitems] != [k for k, _ in items]:
        ck.disagree("keys", f"model {[k for k, _ in mitems][:8]} impl {[k for k, _ in items][:8]}", case)
        return
    for (k, mv), (_, iv) in zip(mitems, items):
        stats["devK"] = max(stats["devK"], abs(mv - iv) / max(abs(mv), 1e-6 * scale, 1e-300))
        if not close(mv, iv, scale):
            ck.disagree("intensity", f"key {k}: model {mv} impl {iv}", case)
            return
    # BigEdge.gt after the call, per object
    mgt = {int(o): (None if v is None else float(unrat(v))) for o, v in resp["gt"]}
    for i, be in enumerate(lst):
        mv = mgt.get(oid[id(be)])
        if mv is None or not close(mv, gts[i], scale):
            ck.disagree("gt", f"object at position {i}: model {mv} impl {gts[i]}", case)
            return
    # the kernel contract for the length, and the size of the band
    for i, be in enumerate(lst):
        ln = polyline_length(be, b.kw)
        ms = math.fsum(math.sqrt(float(unrat(q))) for q in resp["segSq"][i])
        if abs(ln - ms) > 1e-12 * max(ln, 1.0):
            ck.disagree("length", f"position {i}: sum sqrt segSq {ms} harness length {ln}", case)
            return
    if case["integrate"]:
        if [bs[0] for bs in resp["band"]] != band_sizes:
            ck.disagree("band size", f"model {[bs[0] for bs in resp['band']][:6]} impl {band_sizes[:6]}", case)
        ck.count("band_positions", sum(bs[0] for bs in resp["band"]))
        ck.count("band_distinct_pixels", sum(bs[1] for bs in resp["band"]))


# ----------------------------------------------------------------------------------------------- cases

def gen_cases(ck):
    quick = ck.tier == "quick"
    n = 84 if quick else 640
    cases = []
    for i in range(n):
        mode = "F" if i % 2 == 0 else "L"
        styles = IMG_STYLES_F if mode == "F" else IMG_STYLES_L
        kind = ["random", "jitter", "hex", "lattice"][int(ck.rng.integers(0, 4))] if i % 6 else "lattice"
        sites = int(ck.rng.integers(12, 28 if quick else 42))
        ppc = float(ck.rng.uniform(7.0, 13.0 if quick else 16.0))          # pixels per cell diameter
        side = int(math.sqrt(sites) * ppc) + 12
        c = {"type": "tissue", "seed": int(ck.rng.integers(1 << 30)), "kind": kind, "sites": sites,
             "k": int(ck.rng.integers(0, 4)),
             "W": side + int(ck.rng.integers(0, 9)), "H": side + int(ck.rng.integers(0, 9)),
             "mode": mode, "img": styles[int(ck.rng.integers(0, len(styles)))] if i % 7 else "uniform",
             "placement": ["kwargs", "kwargs", "pixels", "pixels_int", "pixels_kw1"][int(ck.rng.integers(0, 5))],
             "layers": i % 4, "integrate": bool((i // 4) % 2), "normalize": [None, "average"][(i // 8) % 2 if i % 3 else int(ck.rng.integers(0, 2))],
             "list": LIST_KINDS[int(ck.rng.integers(0, len(LIST_KINDS)))] if i % 5 else ["repeat", "equal"][(i // 5) % 2],
             "linear": True, "tiff": i % 9 == 0}
        if kind == "lattice":
            c["nx"], c["ny"] = int(ck.rng.integers(2, 5)), int(ck.rng.integers(2, 4))
            c["W"] = c["H"] = int(ck.rng.integers(40, 70))
        cases.append(c)
    return cases


def run_case(ck, case, reqs, pending, stats):
    rng = np.random.default_rng([int(case.get("seed", 0)), 5])
    b = build_hand(case) if case["type"] == "hand" else build_tissue(case)
    if b is None:
        ck.count("tissue_rejected")
        return
    arr = make_array(case) if "pixels" not in case else np.array(case["pixels"], dtype=np.float32 if case["mode"] == "F" else np.uint8)
    lst = make_list(case, b, rng, ck)
    if not lst:
        ck.count("empty_list_skipped")
        return
    oid = {}
    for be in lst:
        oid.setdefault(id(be), len(oid))
    obs = call(lst, arr, case, b.kw)
    if obs[0] == "raises":
        if case["normalize"] == "average" and "FloatingPointError" in obs[1]:
            ck.count("zero_mean_raises_FloatingPointError")     # outside the property: no normalisation exists
            return
        ck.fail("get_intensities raises", obs[1], case, signature="repeated-interface" if len(oid) < len(lst) and "KeyError" in obs[1] else None)
        ck.case(case, nontrivial=True)
        return
    band_sizes = []
    if case["integrate"]:
        band_sizes = [len(fmyosin.get_interpolation(be, case["layers"], **b.kw)[0]) for be in lst]
    if case.get("tiff") and case["type"] == "tissue" and case["list"] == "internal":
        # read_myosin on a TIFF file is get_intensities on frame.internal_big_edges
        fd, path = tempfile.mkstemp(suffix=".tif", prefix="c17_")
        os.close(fd)
        try:
            Image.fromarray(arr).save(path)
            r2 = fmyosin.read_myosin(b.frame, path, case["integrate"], case["normalize"], case["layers"], **b.kw)
            # with use_all the list given is every interface of the frame, in the frame's order
            try:
                r3 = fmyosin.read_myosin(b.frame, path, case["integrate"], case["normalize"], case["layers"], use_all=True, **b.kw)
            except FloatingPointError:
                r3 = None
            except Exception as ex:           # noqa: BLE001
                r3 = ("raises", f"{type(ex).__name__}: {str(ex)[:120]}")
        finally:
            os.unlink(path)
        full = call(list(b.frame.internal_big_edges), arr, case, b.kw)
        if full[0] == "raises" or [(k, float(v)) for k, v in r2.items()] != full[0]:
            ck.fail("read_myosin = get_intensities on the frame's internal interfaces", f"{list(r2.items())[:3]} vs {full[0][:3] if full[0] != 'raises' else full}", case)
        ck.count("read_myosin_checked")
        if r3 is not None:
            every = call(list(b.frame.big_edges.values()), arr, case, b.kw)
            if isinstance(r3, tuple):
                if every[0] != "raises":
                    ck.fail("read_myosin(use_all=True) = get_intensities on all interfaces of the frame, in the frame's order", r3[1], case)
            elif every[0] == "raises" or [(k, float(v)) for k, v in r3.items()] != every[0]:
                ck.fail("read_myosin(use_all=True) = get_intensities on all interfaces of the frame, in the frame's order",
                        f"{list(r3.items())[:3]} vs {every[0][:3] if every[0] != 'raises' else every}", case)
            ck.count("read_myosin_use_all_checked")
        obs = call(lst, arr, case, b.kw)
    oracle(ck, case, b, lst, arr, obs, stats)
    # restore the observation (the oracle re-ran the code with other settings: gt was overwritten)
    obs = call(lst, arr, case, b.kw)
    reqs.append(request(case, b, lst, arr, oid))
    pending.append((case, b, lst, arr, obs, oid, band_sizes))
    nz = any(v != 0 for _, v in obs[0])
    ck.case({k: v for k, v in case.items() if k != "corpus"}, nontrivial=nz and len(lst) >= 1,
            sample={"case": case, "interfaces": len(lst), "first_items": obs[0][:3]} if len(ck.samples) < 3 else None)
    ck.count("mode_" + case["mode"]); ck.count("layers_%d" % case["layers"])
    ck.count("integrate_on" if case["integrate"] else "integrate_off")
    ck.count("normalize_" + str(case["normalize"])); ck.count("img_" + case["img"])
    ck.count("list_" + case.get("list", "hand")); ck.count("placement_" + case.get("placement", case.get("kind", "hand")))
    ck.count("kind_" + case.get("kind", "hand"))
    ck.count("interfaces", len(lst)); ck.count("repeated_objects", len(lst) - len(oid))
    ck.count("keys_python_int" if all(t == "int" for t in obs[2]) else "keys_other_type")


def run(ck):
    ck.rule = ("Voronoi tissues (random / jittered / hexagonal sites, 9..40 cells, 0..3 interior points per interface) and "
               "square lattices, built as real Frames; placed inside a random image (mode F float32: random, smooth, "
               "sparse, 8-decade dynamic range, uniform; mode L 8-bit: random, smooth, binary, uniform; 40..120 px) by "
               "random anisotropic rescale/offset keyword arguments, or given in pixel units (real or integer "
               "coordinates) with default / explicit unit keyword arguments; layers 0..3 x integrate on/off x normalize "
               "None/'average'; the list is the frame's internal interfaces, all interfaces, a shuffled subset, a single "
               "interface, or the internal ones with 1..3 repeated objects and/or 1..3 distinct equal-valued copies. "
               "A case is non-trivial when some interface has a non-zero intensity; distinct = distinct generator "
               "parameters. Interfaces on which exact and IEEE arithmetic may pick different pixels are dropped and counted.")
    ck.assumptions = [
        "PIL.Image.getpixel is the trusted pixel oracle: coordinates are truncated toward zero (probed for modes F and L); "
        "all generated positions are non-negative and inside the image (the driver reports reads outside: must be 0)",
        "IEEE sqrt/sum of the polyline length is computed by the harness (hypot, fsum) and handed to the model; it is checked "
        "against the model's exact squared segment lengths at 1e-12 relative",
        "scipy interp1d(kind='linear') = np.interp two-point formula, modelled exactly; interfaces where its float value "
        "truncates to another pixel than the exact value are rejected (counted as rejected_interface_interp_tie)",
        "the clause 'equal for all interfaces of a uniformly bright image' is read for the non-integrated window statistic: "
        "with integration the statistic is by the property's own first sentence (band pixel count * brightness / length), "
        "which is not constant",
        "defect D22 (band was a set of float positions, pixels summed more than once) is repaired in /repo 5a78257; the "
        "model follows the repaired code, corpus/C17/fractional_band.json guards the repair",
        "BigEdge.xs/ys equal the coordinates of BigEdge.vertices (true for freshly built frames; the integrated branch reads "
        "xs/ys, the window branch reads vertex.x/.y)",
        "normalize='average' with zero mean intensity (or an empty list) raises FloatingPointError under forsys' np.seterr: "
        "outside the property (no normalisation exists); counted, not judged",
    ]
    stats = {"dev": 0.0, "devK": 0.0}
    reqs, pending = [], []
    if ck.replaying:
        rp = ck.replaying
        cases = [rp["case"]] if "case" in rp else [d["case"] for d in rp.get("disagreements", [])]
    else:
        cases = ck.corpus_cases() + gen_cases(ck)
    for case in cases:
        run_case(ck, case, reqs, pending, stats)
    # one driver batch (split to keep single inputs moderate)
    resps = []
    for s in range(0, len(reqs), 40):
        resps += ck.driver(reqs[s:s + 40])
    for (case, b, lst, arr, obs, oid, band_sizes), resp in zip(pending, resps):
        compare(ck, case, b, lst, arr, obs, oid, band_sizes, resp, stats)
    ck.notes.append(f"largest relative deviation seen: oracle vs code {stats['dev']:.3e}, model vs code {stats['devK']:.3e} (tolerance {REL})")
