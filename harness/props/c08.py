"""C08 — interfaces partition the mesh edges; internal/external classification is exact.

K: Frame construction of the real code (big_edges_list, external_edges_id, internal_big_edges(_vertices),
   BigEdge.external/own_cells/edges, get_tensions rows, get_big_edge_by_cells) vs. the Lean model — exact.
S: independent graph walk (maximal junction-to-junction paths from the mesh-edge graph), coverage of every mesh edge
   exactly once, classification from the cells dictionary, two cells per internal interface, lookup by cells.
"""
import glob
import os
import numpy as np

import gen
import impl
from core import REPO
from dump import mesh_json, canon_path

import forsys as fs
import forsys.virtual_edges as ve


def relabel(rng, mode):
    if mode == 0:
        return None, None, None
    a, b = int(rng.integers(2, 9)), int(rng.integers(-50, 50))
    c, d = int(rng.integers(2, 9)), int(rng.integers(0, 100))
    return (lambda i: a * i + b), (lambda i: c * i + d), (lambda i: 3 * i + 17)


def build_case(ck, case):
    rng = np.random.default_rng(case["seed"])
    if case["type"] == "fixture":
        path = os.path.join(REPO, case["path"])
        if path.endswith(".dmp"):
            se = impl.quiet(fs.surface_evolver.SurfaceEvolver, path)
            v, e, c = se.vertices, se.edges, se.cells
        else:
            sk = impl.quiet(fs.skeleton.Skeleton, path)
            v, e, c = impl.quiet(sk.create_lattice)
            v, e, c, _ = impl.quiet(ve.generate_mesh, v, e, c, ne=case.get("ne", 6))
        return (v, e, c), None, None
    if case.get("kind") == "lens":
        # a cell with exactly two neighbours: two interfaces between the same pair of junctions (statics.build_lens)
        import statics
        sc = statics.build_lens(case)
        return (sc.bm.vertices, sc.bm.edges, sc.bm.cells), None, None
    if case["kind"] in ("square", "brick"):
        topo = gen.lattice_topo(case["kind"], case.get("nx", 3), case.get("ny", 3))
    else:
        topo = gen.voronoi_topo(rng, case["sites"], case["kind"])
    if topo is None or topo.ncells() < 1:
        return None
    if "mask" in case:
        sub = [i for i in range(topo.ncells()) if (case["mask"] >> i) & 1]
        if not sub or not gen.is_edge_connected(topo, sub):
            return None
    elif case.get("subset"):
        sub = gen.connected_subsets(topo, rng, max(1, int(round(topo.ncells() * case["subset"]))))
    else:
        sub = None
    kmax = case.get("kmax", 15)
    ks = {}
    def k_of(r):
        if r not in ks:
            ks[r] = int(rng.integers(0, kmax + 1))
        return ks[r]
    vm, em, cm = relabel(rng, case.get("relabel", 0))
    rev = [c for c in range(topo.ncells()) if rng.random() < case.get("p_rev", 0.3)]
    shifts = {c: int(rng.integers(0, 50)) for c in range(topo.ncells())}
    bm = gen.build_mesh(topo, sub, rng=rng, param_mode="random", k_of_ridge=k_of, reverse_cells=rev, shifts=shifts,
                        vmap=vm, emap=em, cmap=cm, center_method="mean")
    v, e, c = bm.vertices, bm.edges, bm.cells
    if case.get("ne"):
        try:
            v, e, c, _ = impl.quiet(ve.generate_mesh, v, e, c, ne=case["ne"], replace_short_edges=case.get("replace", True))
        except Exception as ex:      # resampling failures are property C11's business; here the mesh is only an input
            ck.count("generate_mesh_raised_" + type(ex).__name__)
            return None
        bm.vertices, bm.edges, bm.cells = v, e, c
    return (v, e, c), topo, bm


def oracle(ck, dicts, frame, obs, case):
    v, e, c = dicts
    cov = impl.cells_of_vertex(c)
    ncell = lambda vid: len(cov.get(vid, ()))
    paths, junctions = impl.graph_paths(v, e, c)
    got = [canon_path(p) for p in obs["earr"]]
    # (1) interfaces are exactly the maximal junction-to-junction paths, none listed twice
    if len(set(got)) != len(got):
        ck.fail("no interface is listed twice, in either direction", f"{len(got) - len(set(got))} duplicates", case)
    # restrict the oracle to paths whose mesh edges belong to some cell that has a junction
    cell_has_j = {cid: any(vx.id in junctions for vx in cl.vertices) for cid, cl in c.items()}
    seg_cells = {}
    for cid, cl in c.items():
        ids = [vx.id for vx in cl.vertices]
        for a, b in zip(ids, ids[1:] + ids[:1]):
            seg_cells.setdefault(frozenset((a, b)), set()).add(cid)
    want = {p for p in paths if any(cell_has_j[cc] for cc in seg_cells.get(frozenset(p[:2]), ()))}
    if set(got) != want:
        ck.fail("interfaces are exactly the maximal junction-to-junction paths",
                f"missing {sorted(want - set(got))[:2]} extra {sorted(set(got) - want)[:2]}", case)
    # (2) every mesh edge of a cell that has a junction lies in exactly one interface
    cnt = {}
    for p in obs["earr"]:
        for a, b in zip(p, p[1:]):
            cnt[frozenset((a, b))] = cnt.get(frozenset((a, b)), 0) + 1
    for seg, cs in seg_cells.items():
        if any(cell_has_j[cc] for cc in cs) and cnt.get(seg, 0) != 1:
            ck.fail("every mesh edge of a cell with a junction lies in exactly one interface",
                    f"segment {sorted(seg)} covered {cnt.get(seg, 0)} times", case)
            break
    # (3) classification
    internal_want = [i for i, p in enumerate(obs["earr"])
                     if all(ncell(x) >= 2 for x in p) and (ncell(p[0]) >= 3 or ncell(p[-1]) >= 3)]
    if obs["internalIdx"] != internal_want:
        ck.fail("internal iff all vertices in >=2 cells and an end in >=3 (Frame.internal_big_edges)",
                f"got {obs['internalIdx'][:8]} want {internal_want[:8]}", case)
    if [obs["earr"][i] for i in internal_want] != obs["internalVerts"]:
        ck.fail("internal_big_edges_vertices lists the internal interfaces", "mismatch", case)
    flags_want = [i not in set(internal_want) for i in range(len(obs["earr"]))]
    if obs["extFlags"] != flags_want:
        ck.fail("BigEdge.external is the complement of internal", "mismatch", case)
    if obs["tensionRows"] == "raises:AttributeError":
        ck.fail("tensions are tabulated for exactly the internal interfaces",
                "Frame.get_tensions() raises AttributeError on a frame without interfaces", case,
                signature="get_tensions-empty-frame" if not obs["earr"] else None)
    elif obs["tensionRows"] != internal_want:
        ck.fail("tensions are tabulated for exactly the internal interfaces", f"rows {obs['tensionRows'][:8]} want {internal_want[:8]}", case)
    # (4) internal interfaces separate exactly two cells
    for i in internal_want:
        p = obs["earr"][i]
        sep = seg_cells.get(frozenset(p[:2]), set())
        oc = obs["beOwnCells"][i]
        if len(oc) != 2 or set(oc) != sep or len(sep) != 2:
            # finding D27: the classification looks at vertices only; a two-point interface on the rim of a hole / concave border
            # whose two ends are junctions of >= 3 cells (possible only with four-fold junctions) is counted as internal
            sig = "two-point-rim-interface-between-multi-cell-junctions" if (len(p) == 2 and len(sep) == 1) else None
            ck.fail("internal interfaces separate exactly two cells", f"interface {i} own_cells {oc} cells along it {sorted(sep)}", case, signature=sig)
            break
    # (5) lookup by cells for interfaces with an interior point
    shared = {}
    for i, p in enumerate(obs["earr"]):
        if len(p) >= 3:
            shared.setdefault(frozenset(seg_cells.get(frozenset(p[:2]), ())), []).append(i)
    nlook = 0
    for i in internal_want:
        p = obs["earr"][i]
        if len(p) < 3:
            continue
        pair = frozenset(seg_cells[frozenset(p[:2])])
        if len(shared.get(pair, [])) != 1:
            ck.count("lookup_ambiguous_skipped")
            continue
        c1, c2 = sorted(pair)
        be = frame.get_big_edge_by_cells(c1, c2)
        be2 = frame.get_big_edge_by_cells(c2, c1)
        nlook += 1
        if be.big_edge_id != i or be2.big_edge_id != i:
            ck.fail("looking up an interface with an interior point by its two cells returns it",
                    f"cells {c1},{c2}: got {be.big_edge_id}/{be2.big_edge_id} want {i}", case)
            break
    ck.count("lookups", nlook)
    return internal_want, seg_cells


def compare(ck, obs, resp, case, pairs, lookups):
    for key in ("earr", "externalIds", "internalIdx", "extFlags", "tensionRows"):
        if key == "tensionRows" and obs[key] == "raises:AttributeError":
            continue
        if resp[key] != obs[key]:
            ck.disagree(key, f"model {str(resp[key])[:200]} impl {str(obs[key])[:200]}", case)
            return
    for i, (m, o) in enumerate(zip(resp["beEdges"], obs["beEdges"])):
        if obs["beEdgesAmbiguous"][i]:
            ck.count("ambiguous_common_edge_skipped")
            continue
        if m != o:
            ck.disagree("BigEdge.edges", f"interface {i}: model {m} impl {o}", case)
            return
    for i, (m, o) in enumerate(zip(resp["beOwnCells"], obs["beOwnCells"])):
        same = (m == o) if len(obs["earr"][i]) != 2 else (sorted(m) == sorted(o))
        if not same:
            ck.disagree("BigEdge.own_cells", f"interface {i}: model {m} impl {o}", case)
            return


def run(ck):
    ck.rule = ("Voronoi tissues (random / jittered / hexagonal sites) and their edge-connected sub-tissues (random subsets in "
               "the quick tier, all 2^n subsets of small tissues in the thorough tier), 0..15 interior points per ridge chosen per "
               "ridge, random cycle shifts, orientations and id relabelling, optionally passed through generate_mesh; plus the shipped "
               "Surface Evolver dumps and the shipped skeleton. Non-trivial = the frame has at least one internal interface; "
               "distinct = distinct generator parameters")
    ck.assumptions = ["`list(set(a) & set(b))[0]` is compared only where the intersection is a singleton",
                      "own_cells of two-point interfaces is compared as a set (Python set order is not modelled)"]
    if ck.replaying:
        cases = [ck.replaying["case"]]
    else:
        cases = ck.corpus_cases()
        n = 14 if ck.tier == "quick" else 60
        for i in range(n):
            cases.append({"type": "voronoi", "seed": int(ck.rng.integers(1 << 30)), "sites": int(ck.rng.integers(10, 40)),
                          "kind": ["random", "jitter", "hex"][i % 3], "subset": [None, 0.7, 0.4, 0.2][i % 4],
                          "kmax": [15, 3, 0, 8][i % 4], "relabel": i % 2, "p_rev": [0.0, 0.5, 1.0][i % 3],
                          "ne": [None, None, 3, 6, 1, 12][i % 6], "replace": i % 2 == 0})
        # exhaustive sub-tissues of small tissues
        small = 2 if ck.tier == "quick" else 4
        for s in range(small):
            seed = int(ck.rng.integers(1 << 30))
            rng = np.random.default_rng(seed)
            topo = gen.voronoi_topo(rng, 14 if ck.tier == "quick" else 22, "random")
            if topo is None:
                continue
            nc = min(topo.ncells(), 7 if ck.tier == "quick" else 11)
            for mask in range(1, 1 << nc):
                cases.append({"type": "voronoi", "seed": seed, "sites": 14 if ck.tier == "quick" else 22, "kind": "random",
                              "mask": mask, "kmax": 3, "relabel": 0, "p_rev": 0.3})
        # lattices with four-fold junctions and T-junctions (what the tessellation parser yields on grid-aligned centres)
        for i in range(6 if ck.tier == "quick" else 40):
            cases.append({"type": "voronoi", "seed": int(ck.rng.integers(1 << 30)), "sites": 0, "kind": ["square", "brick"][i % 2],
                          "nx": int(ck.rng.integers(2, 5)), "ny": int(ck.rng.integers(2, 5)), "subset": [None, 0.7, 0.5][i % 3],
                          "kmax": [0, 0, 2][i % 3], "relabel": i % 2, "p_rev": 0.3})
        # square lattice with a hole: two-point interfaces on the hole's rim join junctions of three cells (finding D27)
        cases.append({"type": "voronoi", "seed": 5, "sites": 0, "kind": "square", "nx": 3, "ny": 3, "mask": 0b111101111, "kmax": 0, "relabel": 0, "p_rev": 0.0})
        for i in range(4 if ck.tier == "quick" else 20):
            ku = int(ck.rng.integers(1, 6))
            kl = [0, int(ck.rng.integers(1, 6))][i % 2]
            if kl == ku:
                kl += 1
            cases.append({"type": "voronoi", "kind": "lens", "seed": int(ck.rng.integers(1 << 30)), "k_upper": ku, "k_lower": kl, "h_upper": 1.4, "h_lower": 0.9,
                          "angle": float(ck.rng.uniform(0, 6.28)), "scale": 1.0, "shift": [0.0, 0.0], "shuffle_cells": bool(i % 2), "p_rev": [0.0, 0.5][i % 2], "shifts": True})
        fixtures = ["tests/data/initial_furrow.dmp", "tests/data/last_furrow.dmp", "tests/data/furrow_gauss_velocity/stage3.dmp"]
        for f in fixtures:
            cases.append({"type": "fixture", "seed": 0, "path": f})
        cases.append({"type": "fixture", "seed": 0, "path": "tests/data/test_nonzero.tif", "ne": 6})
    reqs, pending = [], []
    keep = []
    def one(case):
        built = build_case(ck, case)
        if built is None:
            ck.count("rejected_not_connected_or_empty")
            return
        dicts, topo, bm = built
        frame = impl.make_frame(dicts)
        keep.append(frame)
        obs = impl.observe_frame(frame)
        internal, seg_cells = oracle(ck, dicts, frame, obs, case)
        reqs.append({"op": "frame", "mesh": mesh_json(*dicts)})
        pending.append((case, obs))
        ck.case(case, nontrivial=len(internal) > 0,
                sample=({"case": case, "interfaces": len(obs["earr"]), "internal": len(internal),
                         "first_interfaces": obs["earr"][:3]} if len(ck.samples) < 3 else None))
        ck.count("frames"); ck.count("interfaces", len(obs["earr"])); ck.count("internal_interfaces", len(internal))
        ck.count("two_point_interfaces", sum(1 for p in obs["earr"] if len(p) == 2))
        ck.count("type_" + case["type"] + ("_resampled" if case.get("ne") else ""))
        if not ve_consistent_hint(resp=None):
            pass

    for case in cases:
        ck.guard(case, one, case)
    resps = ck.driver(reqs)
    for (case, obs), resp in zip(pending, resps):
        compare(ck, obs, resp, case, None, None)


def ve_consistent_hint(resp):
    return True
