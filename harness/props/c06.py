"""C06 — inference is invariant under similarity transforms and changes of units.

S: one physical tissue (equilibrium or noisy) is inferred in its original pose and after a similarity transform (translation
   up to about 1e3 tissue sizes (beyond that the iterative circle fit loses digits to cancellation: measured 5e-3 at 8e3 sizes), any rotation, reflection, scale 1e-3..1e3): static tension per physical interface and pressure per
   physical cell agree, and every assembled coefficient pair is the transformed pair.  A two-frame series is inferred with
   adimensional velocities in the original units and after multiplying all lengths by lambda and all time stamps by mu
   (1e-3..1e3): the tensions agree up to the effect of the three-decimal rounding of the velocity term.
   Tolerances are scaled by the conditioning (1/sigma_min of the augmented matrix).
K: the rational models are equivariant (theorems of Props/C06.lean); per run the transformed tissue's matrix is compared with
   the Lean model fed with the transformed mesh and the transformed fit centres (as in C02).
Finding D2 (per-component sign forcing) breaks rotation equivariance of single coefficients; such cases carry its signature.
"""
import math
import numpy as np

import impl
import physical
import statics
from dump import mesh_json, rat, unrat

import forsys as fs

SIG_D2 = "tangent-sign-forcing-not-equivariant"
SIG_LAM = "multiplier-column-not-covariant"


def gen_cases(ck):
    cases = ck.corpus_cases()
    n = 16 if ck.tier == "quick" else 120
    for i in range(n):
        mob = bool(ck.rng.integers(3) != 0)
        kind = ["translate", "rotate", "reflect", "scale", "all"][int(ck.rng.integers(5))]
        cases.append({"type": "static", "seed": int(ck.rng.integers(1 << 30)), "tissue": ["random", "jitter", "hex"][int(ck.rng.integers(3))],
                      "sites": int(ck.rng.integers(20, 46)), "subset": None, "min_ridge": 0.005, "mobius": mob,
                      "strength": float(ck.rng.uniform(0.4, 2.0)), "kmin": 1 if mob else 0, "kmax": int(ck.rng.choice([3, 9])),
                      "param_mode": "random", "noise": float(ck.rng.choice([0.0, 0.0, 0.02])), "fit": ["dlite", "taubinSVD"][int(ck.rng.integers(2))],
                      "kind": kind, "t_angle": float(ck.rng.uniform(0, 2 * math.pi)), "t_scale": float(10.0 ** ck.rng.uniform(-5, 3)),
                      "t_shift": [float(ck.rng.normal() * 10.0 ** ck.rng.uniform(0, 3)), float(ck.rng.normal() * 10.0 ** ck.rng.uniform(0, 3))],
                      "angle_limit": float(ck.rng.uniform(0.7, 0.95) * math.pi)})
    for i in range(4 if ck.tier == "quick" else 16):
        # axis-parallel lattices of straight two-point interfaces: tangents with exactly vanishing components in the original
        # pose, generic ones after the rotation
        cases.append({"type": "static", "seed": int(ck.rng.integers(1 << 30)), "tissue": ["brick", "square"][i % 2], "nx": int(ck.rng.integers(2, 5)),
                      "ny": int(ck.rng.integers(2, 5)), "subset": None, "mobius": False, "kmin": 0, "kmax": 0, "param_mode": "uniform", "noise": 0.0,
                      "fit": "dlite", "kind": ["rotate", "all"][(i // 2) % 2], "t_angle": float(ck.rng.uniform(0.2, 1.3)), "t_scale": float(10.0 ** ck.rng.uniform(-2, 2)),
                      "t_shift": [float(ck.rng.normal() * 10), float(ck.rng.normal() * 10)]})
    for i in range(4 if ck.tier == "quick" else 24):
        # a pure change of the length unit across the value 1 of the cell areas (cells of area 0.02..0.05 in the original unit, 10..5000
        # in the other), cells stored in both rotational senses
        cases.append({"type": "static", "seed": int(ck.rng.integers(1 << 30)), "tissue": ["random", "jitter", "hex"][i % 3], "sites": int(ck.rng.integers(20, 40)),
                      "subset": None, "min_ridge": 0.005, "mobius": True, "strength": float(ck.rng.uniform(0.5, 2.0)), "kmin": 2, "kmax": 6,
                      "param_mode": "uniform", "noise": 0.0, "fit": ["dlite", "taubinSVD"][i % 2], "kind": "scale", "t_angle": 0.0,
                      "t_scale": float(10.0 ** ck.rng.uniform(1.3, 2.5)), "t_shift": [0.0, 0.0], "p_rev": 0.5, "shifts": True})
    for i in range(4 if ck.tier == "quick" else 24):
        # a curved interface whose first chord at a junction is exactly axis-parallel in the original pose, generic after the rotation
        cases.append({"type": "static", "seed": int(ck.rng.integers(1 << 30)), "tissue": ["random", "jitter"][i % 2], "sites": int(ck.rng.integers(20, 40)),
                      "subset": None, "min_ridge": 0.005, "mobius": True, "strength": float(ck.rng.uniform(1.0, 2.5)), "kmin": 1, "kmax": [1, 3, 8][i % 3],
                      "param_mode": "uniform", "noise": 0.0, "fit": ["dlite", "taubinSVD"][i % 2], "kind": "rotate", "t_angle": float(ck.rng.uniform(0.2, 1.3)),
                      "t_scale": 1.0, "t_shift": [0.0, 0.0], "axis_chord": True})
    for i in range(6 if ck.tier == "quick" else 40):
        cases.append({"type": "units", "seed": int(ck.rng.integers(1 << 30)), "tissue": ["random", "jitter"][int(ck.rng.integers(2))],
                      "sites": int(ck.rng.integers(24, 46)), "subset": None, "min_ridge": 0.005, "mobius": True, "strength": 1.0, "kmin": 1, "kmax": 4,
                      "fit": "dlite", "lam": float(10.0 ** ck.rng.uniform(-3, 3)), "mu": float(10.0 ** ck.rng.uniform(-3, 3))})
    for i in range(3 if ck.tier == "quick" else 12):
        # the corners of the unit square: small lengths with long time units (tiny speeds in the chosen units) and the opposite
        sgn = [-1, 1, -1][i % 3]
        cases.append({"type": "units", "seed": int(ck.rng.integers(1 << 30)), "tissue": ["random", "jitter"][i % 2],
                      "sites": int(ck.rng.integers(24, 46)), "subset": None, "min_ridge": 0.005, "mobius": True, "strength": 1.0, "kmin": 1, "kmax": 4,
                      "fit": "dlite", "lam": float(10.0 ** (sgn * ck.rng.uniform(3.5, 4.5))), "mu": float(10.0 ** (-sgn * ck.rng.uniform(3.5, 4.5)))})
    return cases


def transform_of(case):
    k = case["kind"]
    ang = case["t_angle"] if k in ("rotate", "all") else 0.0
    sc = case["t_scale"] if k in ("scale", "all") else 1.0
    # the shift is given in units of the (rescaled) tissue: up to about 1e3 tissue sizes (beyond that the iterative circle fit loses digits to cancellation: measured 5e-3 at 8e3 sizes) whatever the length unit
    sh = [case["t_shift"][0] * sc, case["t_shift"][1] * sc] if k in ("translate", "all") else [0.0, 0.0]
    refl = k in ("reflect", "all")
    return ang, sc, sh, refl


def build(case, ang, scl, sh, refl):
    c = dict(case)
    if case.get("axis_chord"):
        # original pose: a curved interface leaves a junction with its first chord exactly parallel to a coordinate axis (and the
        # tangent on the side the code's sign rule picks); the other poses are built from the same tissue turned further
        from props.c02 import axis_chord
        base = axis_chord(dict(case, angle=0.0, scale=1.0, shift=[0.0, 0.0], reflect=False))
        if base is None:
            return None
        if (ang, scl, sh, refl) == (0.0, 1.0, [0.0, 0.0], False):
            return base
        c.pop("axis_chord")
        c.update({"angle": base.case["angle"] + ang, "scale": scl, "shift": sh, "reflect": False})
        return statics.build_static(c)
    c.update({"angle": ang, "scale": scl, "shift": sh, "reflect": refl})
    if case.get("noise", 0.0) > 0:
        rng = np.random.default_rng(case["seed"] + 5)
        probe = statics.build_static(c)
        if probe is None:
            return None
        nj = len(probe.topo.J)
        d0 = (rng.normal(size=nj) + 1j * rng.normal(size=nj)) * case["noise"]
        ser = statics.build_series(c, 1, disp=[d0])
        return ser[0]
    return statics.build_static(c)


def lin(ang, refl, w):
    z = complex(w[0], w[1])
    if refl:
        z = z.conjugate()
    z = z * complex(math.cos(ang), math.sin(ang))
    return (z.real, z.imag)


def run_static_case(ck, case, reqs, pending):
    fit = case.get("fit", "dlite")
    ang, scl, sh, refl = transform_of(case)
    a = build(case, 0.0, 1.0, [0.0, 0.0], False)
    b = build(case, ang, scl, sh, refl)
    if a is None or b is None:
        ck.count("rejected_tissue"); return
    pa = physical.run_static(a, fit=fit, pressure=True)
    pb = physical.run_static(b, fit=fit, pressure=True)
    ck.count("kind_" + case["kind"])
    if (pa.tension is None) != (pb.tension is None):
        ck.fail("the transformed tissue has the same equations", f"original pose: {len(pa.rowmap)} junctions with equations, transformed: {len(pb.rowmap)}", case)
        ck.case(case); return
    if pa.tension is None:
        ck.count("rejected_no_equations"); return
    noisy = case.get("noise", 0.0) > 0
    # mirrored tangents can only be recognised against a closed-form tangent (equilibrium tissues)
    d2 = (bool(pa.d2) or bool(pb.d2)) if not noisy else None
    if set(pa.coefs) != set(pb.coefs):
        ck.fail("the transformed tissue has the same equations", "different junctions / interfaces in the system", case)
        ck.case(case); return
    ctol = 2 * max(physical.coef_tolerance(a, pa, fit), physical.coef_tolerance(b, pb, fit))
    worst, worst_key = 0.0, None
    clean, clean_key = 0.0, None            # over the coefficients whose closed-form tangent is not mirrored by finding D2 in either pose
    for key, (cx, cy) in pa.coefs.items():
        ex, ey = lin(ang, refl, (cx, cy))
        gx, gy = pb.coefs[key]
        dev = max(abs(gx - ex), abs(gy - ey))
        if dev > worst:
            worst, worst_key = dev, key
        if not noisy and key not in pa.d2 and key not in pb.d2 and dev > clean:
            clean, clean_key = dev, key
    if clean > ctol:
        # finding KF7: the iterative fit stopped short of the circle the points lie on, in one pose and not in the other
        badfit = set()
        for ph_ in (pa, pb):
            badfit |= {(j_, ph_.ridge_of(ph_.used[c_])) for c_ in physical.unconverged_fits(ph_.frame, ph_.used, fit) for j_ in ph_.ridge_of(ph_.used[c_]) or ()}
        ck.fail("the assembled coefficient pairs rotate / reflect with the tissue", f"max deviation {clean:.3g} at {clean_key} (tolerance {ctol:.3g}); "
                "neither pose mirrors this tangent", case, signature=physical.SIG_FIT if clean_key in badfit else None)
    elif worst > ctol:
        flagged = d2 if d2 is not None else True     # without a closed form (noisy tissue) the sign forcing cannot be excluded
        ck.fail("the assembled coefficient pairs rotate / reflect with the tissue", f"max deviation {worst:.3g} at {worst_key} (tolerance {ctol:.3g})",
                case, signature=SIG_D2 if flagged and worst < 0.2 else None)
    # the junctions flagged by a finite angle limit are decided from directions only: the unknowns that remain must not depend on the
    # pose or the length unit
    lim = case.get("angle_limit")
    if lim is not None:
        def used_under(ph_):
            out = []
            for dl in (-1e-6, 0.0, 1e-6):
                impl.quiet(ph_.forsys.build_force_matrix, when=0, circle_fit_method=fit, angle_limit=lim + dl)
                out.append(sorted(tuple(sorted(ph_.ridge_of([int(x) for x in e]) or ())) for e in ph_.forsys.force_matrices[0].big_edges_to_use))
            return out[1], out[0] == out[1] == out[2]
        ua, sa = used_under(pa)
        ub, sb = used_under(pb)
        if sa and sb:
            if ua != ub:
                ck.fail("the static tension of every physical interface is unchanged (the interfaces excluded by a finite angle limit are the same)",
                        f"angle_limit {lim:.4f}: {len(ua)} unknowns in the original pose, {len(ub)} after the transformation", case,
                        # the per-component sign forcing (finding D2) moves tangents by up to 0.09 rad when the tissue is rotated or
                        # reflected (never under translation or rescaling); on noisy tissues it cannot be excluded
                        signature=SIG_D2 if (case["kind"] in ("rotate", "reflect", "all") and
                                             (physical.d2_active(pa.frame, fit) or physical.d2_active(pb.frame, fit))) else None)
            ck.count("angle_limited_unknowns_compared")
        else:
            ck.count("angle_limit_within_1e-6_of_a_junction_angle")
    # the turning of every physical interface (the right-hand side of its pressure equation is tension x turning) is a pure
    # number: unchanged by the transformation up to the sign convention, and by a change of the length unit by 1e-4
    def turnings(ph_):
        out = {}
        for be in ph_.frame.internal_big_edges:
            rg = ph_.ridge_of([int(x) for x in be.get_vertices_ids()])
            if rg is not None:
                out[rg] = abs(float(impl.quiet(be.calculate_total_curvature, normalized=False)))
        return out
    ta, tb = turnings(pa), turnings(pb)
    small = build(case, 0.0, 1e-4, [0.0, 0.0], False)
    ts = turnings(physical.run_static(small, fit=fit, solve=False)) if small is not None else ta
    for label, tt in (("the transformed tissue", tb), ("the tissue in a length unit 1e-4 times smaller", ts)):
        dturn = max((abs(tt[r] - ta[r]) / (1.0 + abs(ta[r])) for r in ta if r in tt), default=0.0)      # turnings are pure numbers of order one
        if set(tt) != set(ta) or dturn > 1e-6:
            ck.fail("the pressure of every physical cell is unchanged (turning of every interface, the right-hand side of its pressure equation)",
                    f"{label}: relative deviation {dturn:.3g}", case)
            break
    ck.count("turnings_compared")
    if pa.wellposed and pb.wellposed:
        n = len(pa.tension)
        maxt = max(abs(v) for v in pa.tension.values())
        tol = (1e-8 + 2 * ctol * math.sqrt(n) * maxt) / min(pa.sigma[0], pb.sigma[0])
        dt = max(abs(pa.tension[r] - pb.tension[r]) for r in pa.tension)
        scale_p = max(abs(v) for v in pa.pressure.values()) + 1e-3
        dp = max(abs(pa.pressure[c] - pb.pressure[c] * (-1 if False else 1)) for c in pa.pressure)
        flagged = (d2 if d2 is not None else worst > ctol)
        # finding KF4: the multiplier column adds the same lambda to x- and y-equations; for inconsistent (noisy) systems lambda != 0
        # and the augmented problem is not covariant under rotations / reflections
        lam = max(abs(float(pa.fm._verif["xres_raw"][-1])), abs(float(pb.fm._verif["xres_raw"][-1])))
        rotated = case["kind"] in ("rotate", "reflect", "all")
        # the sign forcing (D2) is invariant under translations and changes of unit (tangentVec_translate / _scale): it can explain a
        # deviation only when the tissue was rotated or reflected
        sig = SIG_LAM if (lam > 1e-6 and rotated) else (SIG_D2 if (flagged and rotated) else None)
        if dt > tol:
            ck.fail("the static tension of every physical interface is unchanged", f"max deviation {dt:.3g} (tolerance {tol:.3g}; multiplier {lam:.3g})", case,
                    signature=sig)
        elif dp > (1e-7 + 20 * tol) * scale_p:
            ck.fail("the pressure of every physical cell is unchanged", f"max deviation {dp:.3g} (scale {scale_p:.3g})", case,
                    signature=sig)
        ck.count("fully_compared")
        ck.dist["worst_tension_dev_over_tol"] = max(ck.dist.get("worst_tension_dev_over_tol", 0.0), dt / tol if sig is None else 0.0)
    else:
        ck.count("equations_only")
    # K: the transformed tissue against the model
    b.frame = pb.frame
    cs = statics.centers(b, fit)
    reqs.append({"op": "fmatrix", "mesh": mesh_json(pb.frame.vertices, pb.frame.edges, pb.frame.cells),
                 "centers": [[rat(x), rat(y)] for x, y in cs], "cos": None, "ignoreFour": False})
    pending.append((case, pb))
    # the translation the package performs itself: the frame that has just been solved is put, with a second frame, into a solver
    # object with cm=True (every vertex is shifted in place by the rounded centre of mass) and solved again
    if case.get("recentre", True) and pb.tension is not None and not noisy:
        try:
            other = build(case, ang, scl, sh, refl)
            f2 = impl.quiet(fs.ForSys, {0: pb.frame, 1: impl.make_frame(other.bm, frame_id=1, time=1.0)}, cm=True)
            if f2.mesh.mapping[0] is not None:
                impl.quiet(f2.build_force_matrix, when=0, circle_fit_method=fit)
                impl.quiet(f2.solve_stress, when=0)
                again = {rg: float(pb.frame.forces[k]) for k, rg in enumerate(pb.ridges)}
                if pb.wellposed:
                    tolr = (1e-8 + 2 * ctol * math.sqrt(len(again)) * max(abs(v) for v in pb.tension.values())) / pb.sigma[0]
                    dr = max(abs(again[r] - pb.tension[r]) for r in again)
                    if dr > tolr:
                        ck.fail("the static tension of every physical interface is unchanged (frame re-centred in place by ForSys(cm=True) and solved again)",
                                f"max deviation {dr:.3g} (tolerance {tolr:.3g})", case, signature=SIG_D2 if d2 else None)
                    ck.count("recentred_and_solved_again")
        except fs.exceptions.DifferentTissueException:
            ck.count("recentre_rejected_by_tracker")
    ck.case(case, nontrivial=True, sample=({"case": case, "unknowns": len(pa.tension), "worst_coefficient_deviation": worst} if len(ck.samples) < 3 else None))
    return pa, pb


def dynamic_tensions(case, lam, mu):
    """two-frame series: frame 1 = frame 0 with junctions displaced; lengths scaled by lam, time stamps by mu"""
    rng = np.random.default_rng(case["seed"] + 77)
    c = dict(case, angle=0.3, scale=lam, shift=[0.0, 0.0])
    sc = statics.build_static(c)
    if sc is None:
        return None
    fr0 = impl.make_frame(sc.bm)
    ends = sorted({int(e[0]) for e in fr0.big_edges_list} | {int(e[-1]) for e in fr0.big_edges_list})
    P = np.array([[fr0.vertices[k].x, fr0.vertices[k].y] for k in ends])
    D = np.hypot(P[:, None, 0] - P[None, :, 0], P[:, None, 1] - P[None, :, 1]); D[np.diag_indices(len(P))] = np.inf
    bound = 0.2 * min(0.5 * D.min(), 0.08 * max(np.ptp(P[:, 0]), np.ptp(P[:, 1])))
    disp = {}
    for k in ends:
        d = (rng.normal() + 1j * rng.normal())
        d = d / max(abs(d), 1.0) * bound
        disp[k] = (fr0.vertices[k].x + d.real, fr0.vertices[k].y + d.imag)
    bm1 = statics.clone_displaced(sc.bm, disp)
    frames = {0: impl.make_frame(sc.bm, frame_id=0, time=0.0), 1: impl.make_frame(bm1, frame_id=1, time=1.7 * mu)}
    f = impl.quiet(fs.ForSys, frames, cm=False)
    impl.quiet(f.build_force_matrix, when=0, circle_fit_method=case.get("fit", "dlite"))
    impl.quiet(f.solve_stress, when=0, b_matrix="velocity", adimensional_velocity=True)
    fm = f.force_matrices[0]
    A = np.array(fm.matrix, dtype=float)
    forces = frames[0].forces
    return np.array([forces[i] for i in range(len(forces))]), A, (f, frames, bm1, sc)


def run_units_case(ck, case, reqs, pending):
    r0 = dynamic_tensions(case, 1.0, 1.0)
    r1 = dynamic_tensions(case, case["lam"], case["mu"])
    if r0 is None or r1 is None:
        ck.count("rejected_tissue"); return
    x0, A, keep0 = r0
    x1, A1, keep1 = r1
    if not A.size or len(x0) != len(x1):
        ck.count("rejected_no_equations"); return
    # the adimensional right-hand side itself (what the solver received, after the three-decimal rounding): the two unit systems may
    # differ by one unit of that rounding and no more
    rec0, rec1 = getattr(keep0[0].force_matrices[0], "_verif", None), getattr(keep1[0].force_matrices[0], "_verif", None)
    if rec0 is not None and rec1 is not None and len(rec0["b"]) == len(rec1["b"]):
        db = float(np.max(np.abs(np.asarray(rec0["b"], dtype=float) - np.asarray(rec1["b"], dtype=float))))
        if db > 1.0000001e-3:
            ck.fail("with adimensional velocities the dynamic tensions are unchanged when all lengths / all time stamps are multiplied by a positive factor "
                    "(the velocity term handed to the solver is the same up to its three-decimal rounding)",
                    f"lambda {case['lam']:.3g} mu {case['mu']:.3g}: right-hand sides differ by {db:.3g}", case)
        ck.count("units_right_hand_sides_compared")
    n = A.shape[1]
    M = np.block([[A, np.ones((A.shape[0], 1))], [np.ones((1, n)), np.zeros((1, 1))]])
    sv = np.linalg.svd(M, compute_uv=False)
    if M.shape[0] < M.shape[1] or sv[-1] < 1e-3 * sv[0]:
        ck.count("units_not_well_posed"); ck.case(case, nontrivial=False); return
    tol = (2 * 5e-4 * math.sqrt(A.shape[0]) * 2 + 1e-6) / sv[-1]
    dev = float(np.max(np.abs(x0 - x1)))
    ck.dist["worst_units_dev_over_tol"] = max(ck.dist.get("worst_units_dev_over_tol", 0.0), dev / tol)
    if dev > tol:
        ck.fail("with adimensional velocities the dynamic tensions are unchanged when all lengths / all time stamps are multiplied by a positive factor",
                f"lambda {case['lam']:.3g} mu {case['mu']:.3g}: max deviation {dev:.3g} (tolerance {tol:.3g})", case)
    ck.count("units_compared")
    ck.case(case, nontrivial=True, sample=({"case": case, "deviation": dev, "tolerance": tol} if len(ck.samples) < 4 else None))
    return keep0, keep1


def run(ck):
    ck.rule = ("equilibrium and noisy Voronoi / Moebius tissues under translation (up to about 1e3 tissue sizes (beyond that the iterative circle fit loses digits to cancellation: measured 5e-3 at 8e3 sizes)), arbitrary rotation, reflection, "
               "scale 1e-3..1e3 and all of them together; two-frame series under length factors and time-unit factors 1e-3..1e3 with "
               "adimensional velocities. Non-trivial = every case; distinct = parameters")
    ck.assumptions = ["coefficient tolerance = 2 x the closed-form tolerance of C02 (fit accuracy degrades far from the origin and for nearly straight arcs); "
                      "tension tolerance = (1e-8 + 2*coef_tol*sqrt(n)*max tension)/sigma_min; pressure tolerance = (1e-7 + 20*tension tolerance) x pressure scale",
                      "units: tolerance (4*5e-4*sqrt(rows) + 1e-6)/sigma_min — the effect of the three-decimal rounding (theorem nnls_nonexpansive)"]
    cases = [ck.replaying["case"]] if ck.replaying else gen_cases(ck)
    reqs, pending, keep = [], [], []
    for case in cases:
        fn = run_static_case if case["type"] == "static" else run_units_case
        keep.append(ck.guard(case, fn, ck, case, reqs, pending))
    resps = ck.driver(reqs)
    for (case, ph), resp in zip(pending, resps):
        if resp["used"] != ph.used:
            ck.disagree("unknowns", "model and implementation differ on the transformed tissue", case); continue
        bad = False
        for vid, k, row in resp["rows"]:
            if (int(vid) in ph.rowmap) != bool(k):
                bad = True; break
            if not k:
                continue
            r = ph.rowmap[int(vid)]
            for col, ent in enumerate(row):
                gx, gy = ph.A[r, col], ph.A[r + 1, col]
                if ent is None:
                    bad = bad or gx != 0 or gy != 0
                    continue
                vx, vy = float(unrat(ent[0])), float(unrat(ent[1]))
                nn = math.hypot(vx, vy)
                bad = bad or abs(vx / nn - gx) > 1e-9 or abs(vy / nn - gy) > 1e-9
        if bad:
            ck.disagree("matrix of the transformed tissue", "model and implementation differ", case)
