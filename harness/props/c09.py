"""C09 — every construction or editing path yields a consistent vertex-edge-cell mesh.

K: (i) the Lean predicate `Mesh.Consistent` is evaluated by the driver on a dump of the real dictionaries after every
       step of a generated history (parser -> generate_mesh -> Frame -> generate_mesh ...);
   (ii) the model's `ofLists` (the constructor pattern of every parser, theorem `ofLists_consistent`) is compared with
       the dictionaries the real constructors build from the same lists; `generateMesh` with the real generate_mesh
       (shared with C11).
S: the same five clauses written independently in Python on the real objects (incl. object identity).
"""
import os
import numpy as np

import gen
import impl
from core import REPO
from dump import mesh_json, rat, unrat

import forsys as fs
import forsys.virtual_edges as ve
import forsys.tessellation as ftess
import forsys.wkt as fwkt


def py_consistent(v, e, c):
    """the property statement, clause by clause, on the real objects"""
    bad = []
    # stored under own id, same object
    for k, x in v.items():
        if x.id != k:
            bad.append(f"vertex stored under {k} has id {x.id}")
    for k, x in e.items():
        if x.id != k:
            bad.append(f"edge stored under {k} has id {x.id}")
        for end in (x.v1, x.v2):
            if v.get(end.id) is not end:
                bad.append(f"edge {k} refers to vertex {end.id} which is not the stored object")
    for k, x in c.items():
        if x.id != k:
            bad.append(f"cell stored under {k} has id {x.id}")
        ids = [vx.id for vx in x.vertices]
        if len(set(ids)) != len(ids):
            bad.append(f"cell {k} repeats a vertex")
        for vx in x.vertices:
            if v.get(vx.id) is not vx:
                bad.append(f"cell {k} refers to vertex {vx.id} which is not the stored object")
    ends = {}
    for k, x in e.items():
        ends.setdefault(x.v1.id, set()).add(k)
        ends.setdefault(x.v2.id, set()).add(k)
    incells = {}
    for k, x in c.items():
        for vx in x.vertices:
            incells.setdefault(vx.id, set()).add(k)
    for k, x in v.items():
        if len(set(x.ownEdges)) != len(x.ownEdges) or set(x.ownEdges) != ends.get(k, set()):
            bad.append(f"vertex {k} lists edges {sorted(x.ownEdges)} but edges ending there are {sorted(ends.get(k, set()))}")
        if len(set(x.ownCells)) != len(x.ownCells) or set(x.ownCells) != incells.get(k, set()):
            bad.append(f"vertex {k} lists cells {sorted(x.ownCells)} but occurs in {sorted(incells.get(k, set()))}")
    joined = {frozenset((x.v1.id, x.v2.id)) for x in e.values()}
    for k, x in c.items():
        ids = [vx.id for vx in x.vertices]
        for a, b in zip(ids, ids[1:] + ids[:1]):
            if frozenset((a, b)) not in joined:
                bad.append(f"cell {k}: consecutive vertices {a},{b} not joined by a mesh edge")
                break
    return bad


def start_mesh(ck, case):
    rng = np.random.default_rng(case["seed"])
    t = case["type"]
    if t == "se":
        se = impl.quiet(fs.surface_evolver.SurfaceEvolver, os.path.join(REPO, case["path"]))
        return (se.vertices, se.edges, se.cells), None
    if t == "skeleton":
        sk = impl.quiet(fs.skeleton.Skeleton, os.path.join(REPO, case["path"]), mirror_y=case.get("mirror", False))
        return impl.quiet(sk.create_lattice), None
    if t == "tess":
        pts = rng.random((case["n"], 2)) * 100
        centers = [tuple(p) for p in pts]
        if case.get("ring"):
            centers = centers + ftess.add_voronoi_centers(centers)
        el = impl.quiet(ftess.create_lattice_elements, centers, max_distance=case.get("maxd", 75))
        return impl.quiet(ftess.create_lattice, *el), None
    if t == "wkt":
        topo = gen.voronoi_topo(rng, case["sites"], "random")
        if topo is None:
            return None, None
        rows = []
        for cyc in topo.cells:
            pts = [topo.J[j] for j in cyc] + [topo.J[cyc[0]]]
            rows.append("POLYGON ((" + ", ".join(f"{round(float(p.real) * 500, 3)} {round(float(p.imag) * 500, 3)}" for p in pts) + "))")
        return impl.quiet(fwkt.create_lattice, rows), None
    topo = gen.voronoi_topo(rng, case["sites"], case["kind"])
    if topo is None or topo.ncells() < 2:
        return None, None
    sub = None
    if case.get("subset"):
        sub = gen.connected_subsets(topo, rng, max(2, int(round(topo.ncells() * case["subset"]))))
    ks = {}
    def k_of(r):
        if r not in ks:
            ks[r] = int(rng.integers(case.get("kmin", 1), case.get("kmax", 12) + 1))
        return ks[r]
    rev = [c for c in range(topo.ncells()) if rng.random() < 0.3]
    bm = gen.build_mesh(topo, sub, rng=rng, param_mode="random", k_of_ridge=k_of, reverse_cells=rev,
                        vmap=(lambda i: 2 * i + 5) if case.get("relabel") else None,
                        emap=(lambda i: 3 * i + 2) if case.get("relabel") else None, center_method="mean")
    lists = {"v": [[int(k), rat(x.x), rat(x.y)] for k, x in bm.vertices.items()],
             "e": [[int(k), int(x.v1.id), int(x.v2.id)] for k, x in bm.edges.items()],
             "c": [[int(k), [int(vx.id) for vx in x.vertices]] for k, x in bm.cells.items()], "orphans": False}
    return (bm.vertices, bm.edges, bm.cells), lists


def run(ck):
    ck.rule = ("histories: a parser (constructors on generated tissues / Surface Evolver dump / skeleton image / tessellation / "
               "WKT) followed by a random sequence of generate_mesh(ne in 2..12, replace on/off) and Frame constructions; after "
               "every step the real dictionaries are dumped and the consistency predicate is evaluated both by the Lean driver and "
               "by an independent Python transcription. Non-trivial = a history with at least one editing step; distinct = parameters")
    ck.assumptions = ["CPython runs __del__ as soon as the last reference goes (the harness keeps no second reference)",
                      "object identity is evaluated on the real objects by the dumper and handed to the model as flags"]
    if ck.replaying:
        cases = [ck.replaying["case"]]
    else:
        cases = ck.corpus_cases()
        n = 14 if ck.tier == "quick" else 90
        for i in range(n):
            steps = []
            for _ in range(int(ck.rng.integers(1, 4))):
                steps.append(["genmesh", int(ck.rng.integers(2, 13)), bool(ck.rng.integers(2))] if ck.rng.random() < 0.7 else ["frame"])
            cases.append({"type": "voronoi", "seed": int(ck.rng.integers(1 << 30)), "sites": int(ck.rng.integers(10, 30)),
                          "kind": ["random", "jitter", "hex"][int(ck.rng.integers(3))], "subset": [None, 0.6, 0.3][int(ck.rng.integers(3))],
                          "kmin": [1, 0, 2][int(ck.rng.integers(3))], "kmax": [12, 3, 25][int(ck.rng.integers(3))],
                          "relabel": bool(ck.rng.integers(2)), "steps": steps})
        fx = [("se", "tests/data/initial_furrow.dmp"), ("se", "tests/data/furrow_gauss_velocity/stage5.dmp"),
              ("skeleton", "tests/data/test_nonzero.tif")]
        for t, pth in fx:
            cases.append({"type": t, "seed": 0, "path": pth, "steps": [["genmesh", 6, True], ["frame"], ["genmesh", 4, True]]})
        cases.append({"type": "skeleton", "seed": 0, "path": "tests/data/test_nonzero.tif", "mirror": True, "steps": [["genmesh", 5, False]]})
        for i in range(2 if ck.tier == "quick" else 8):
            cases.append({"type": "tess", "seed": int(ck.rng.integers(1 << 30)), "n": int(ck.rng.integers(12, 60)), "ring": bool(i % 2),
                          "maxd": [75, 40, 1e9][i % 3], "steps": [["frame"], ["genmesh", 3, True]]})
            cases.append({"type": "wkt", "seed": int(ck.rng.integers(1 << 30)), "sites": int(ck.rng.integers(10, 25)), "steps": [["genmesh", 4, False]]})
    reqs, pending = [], []
    keep = []
    def one(case):
        dicts, lists = start_mesh(ck, case)
        if dicts is None:
            ck.count("rejected")
            return
        v, e, c = dicts
        hist = ["parse"]
        stage_ok = True

        def snapshot(label):
            bad = py_consistent(v, e, c)
            if bad:
                sig = None
                ck.fail(f"mesh consistent after {label}", "; ".join(bad[:3]), dict(case, upto=list(hist)), signature=sig)
            reqs.append({"op": "consistent", "mesh": mesh_json(v, e, c)})
            pending.append(("cons", dict(case, upto=list(hist)), not bad, None))
            ck.count("dumps")
        snapshot("parsing")
        if lists is not None:
            reqs.append(dict(lists, op="of_lists"))
            pending.append(("oflists", case, mesh_json(v, e, c), None))
        ck.count("parser_" + case["type"])
        for st in case.get("steps", []):
            if st[0] == "genmesh":
                try:
                    v, e, c, _ = impl.quiet(ve.generate_mesh, v, e, c, ne=st[1], replace_short_edges=st[2])
                except Exception as ex:
                    # failures of the resampling itself are C11's business (finding D17); the history stops here
                    ck.count("generate_mesh_raised_" + type(ex).__name__)
                    break
                hist.append(st)
                snapshot(f"generate_mesh(ne={st[1]}, replace_short_edges={st[2]})")
            else:
                fr = impl.make_frame((v, e, c))
                keep.append(fr)
                hist.append(st)
                snapshot("Frame construction")
        keep.append((v, e, c))
        ck.case(case, nontrivial=len(hist) > 1,
                sample=({"case": case, "vertices": len(v), "edges": len(e), "cells": len(c)} if len(ck.samples) < 3 else None))

    for case in cases:
        ck.guard(case, one, case)
    resps = ck.driver(reqs)
    for (kind, case, a, b), resp in zip(pending, resps):
        if kind == "cons":
            if resp["ok"] != a:
                ck.disagree("Consistent", f"Lean {resp['ok']} {resp['failing']} vs Python {a}", case)
            elif not resp["ok"]:
                pass  # already reported by the Python oracle with the failing clause
        else:
            want = a
            got = resp["mesh"]
            def norm(m):
                return ([[r[0], r[1], float(unrat(r[2])), float(unrat(r[3])), r[4], r[5]] for r in m["v"]],
                        [r[:4] for r in m["e"]], [r[:3] for r in m["c"]])
            if norm(want) != norm(got):
                ck.disagree("ofLists vs real constructors", "dictionaries differ", case)
            if not resp["consistent"]:
                ck.disagree("ofLists consistent", str(resp["failing"]), case)
