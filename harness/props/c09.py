"""C09 — every construction or editing path yields a consistent vertex-edge-cell mesh.

K: (i) the Lean predicate `Mesh.Consistent` is evaluated by the driver on a dump of the real dictionaries after every
       step of a generated history (parser -> generate_mesh -> Frame -> generate_mesh ...);
   (ii) the model's `ofLists` (the constructor pattern of every parser, theorem `ofLists_consistent`) is compared with
       the dictionaries the real constructors build from the same lists; `generateMesh` with the real generate_mesh
       (shared with C11);
   (iii) WKT: the model `Wkt.latticeWith` (Model/Wkt.lean; theorems Props/C09wkt.lean: `wkt_consistent`, `wkt_wf_consistent`,
       `wkt_vertices_injective`, `wkt_edges_unique`, `wkt_cell_cycles` …) is run on the token pairs `float(v[1])`, `float(v[2])`
       of every row (all pieces but the last, built by the harness independently of `read_vertexes`) and its three
       dictionaries are compared exactly (keys, ids, coordinates, own lists, cycles, insertion order) with those of
       `wkt.create_lattice`; on rows outside the theorems' hypotheses (empty row, one coordinate, consecutive repeats) the
       exception type is compared instead.
S: the same five clauses written independently in Python on the real objects (incl. object identity).
"""
import os
from fractions import Fraction
import math
import numpy as np

import gen
import impl
from core import REPO
from dump import mesh_json, rat, unrat

import forsys as fs
import forsys.virtual_edges as ve
import forsys.tessellation as ftess
import forsys.wkt as fwkt


def py_consistent(v, e, c):
    """the property statement, clause by clause, on the real objects"""
    bad = []
    # stored under own id, same object
    for k, x in v.items():
        if x.id != k:
            bad.append(f"vertex stored under {k} has id {x.id}")
    for k, x in e.items():
        if x.id != k:
            bad.append(f"edge stored under {k} has id {x.id}")
        for end in (x.v1, x.v2):
            if v.get(end.id) is not end:
                bad.append(f"edge {k} refers to vertex {end.id} which is not the stored object")
    for k, x in c.items():
        if x.id != k:
            bad.append(f"cell stored under {k} has id {x.id}")
        ids = [vx.id for vx in x.vertices]
        if len(set(ids)) != len(ids):
            bad.append(f"cell {k} repeats a vertex")
        for vx in x.vertices:
            if v.get(vx.id) is not vx:
                bad.append(f"cell {k} refers to vertex {vx.id} which is not the stored object")
    ends = {}
    for k, x in e.items():
        ends.setdefault(x.v1.id, set()).add(k)
        ends.setdefault(x.v2.id, set()).add(k)
    incells = {}
    for k, x in c.items():
        for vx in x.vertices:
            incells.setdefault(vx.id, set()).add(k)
    for k, x in v.items():
        if len(set(x.ownEdges)) != len(x.ownEdges) or set(x.ownEdges) != ends.get(k, set()):
            bad.append(f"vertex {k} lists edges {sorted(x.ownEdges)} but edges ending there are {sorted(ends.get(k, set()))}")
        if len(set(x.ownCells)) != len(x.ownCells) or set(x.ownCells) != incells.get(k, set()):
            bad.append(f"vertex {k} lists cells {sorted(x.ownCells)} but occurs in {sorted(incells.get(k, set()))}")
    joined = {frozenset((x.v1.id, x.v2.id)) for x in e.values()}
    for k, x in c.items():
        ids = [vx.id for vx in x.vertices]
        for a, b in zip(ids, ids[1:] + ids[:1]):
            if frozenset((a, b)) not in joined:
                bad.append(f"cell {k}: consecutive vertices {a},{b} not joined by a mesh edge")
                break
    return bad


# explicit WKT row sets (token strings, closing coordinate included).  What each exercises is said in `note`.
WKT_ROWSETS = [
    {"note": "two triangles sharing an edge; the second row starts at the vertex with id 0",
     "rows": [[["0", "0"], ["10", "0"], ["10", "10"], ["0", "0"]], [["0", "0"], ["10", "10"], ["0", "10"], ["0", "0"]]]},
    {"note": "fan of three polygons around the first vertex of the file (id 0), clockwise and counter-clockwise rows mixed, the shared "
             "vertex first / in the middle / last-but-one of its rows",
     "rows": [[["5", "5"], ["9", "5"], ["9", "9"], ["5", "9"], ["5", "5"]],
              [["1", "9"], ["5", "9"], ["5", "5"], ["1", "5"], ["1", "9"]],
              [["5", "1"], ["9", "1"], ["9", "5"], ["5", "5"], ["5", "1"]],
              [["1", "5"], ["5", "5"], ["5", "1"], ["1", "1"], ["1", "5"]]]},
    {"note": "non-integer coordinates, exponents, negative values, y beyond 1024; the same float spelled differently is one vertex",
     "rows": [[["0.1", "0.2"], ["1e2", "2.5e1"], ["-3.75", "1030.5"], ["0.1", "0.2"]],
              [["100.0", "25"], ["0.1", "0.2"], ["7.125", "-0.3"], ["1E2", "25.0"]],
              [["-3.750", "1.0305e3"], ["0.10", "2e-1"], ["100", "25"], ["-3.75", "1030.5"]]]},
    {"note": "-0.0 and 0.0 are one vertex; full-precision decimals whose flip is rounded",
     "rows": [[["-0.0", "0"], ["3.3333333333333335", "0.1"], ["2.718281828459045", "3.141592653589793"], ["0", "-0.0"]],
              [["0.0", "0.0"], ["2.718281828459045", "3.141592653589793"], ["-1.1", "2.2"], ["0", "0"]]]},
    {"note": "rows that are not closed: the last coordinate is dropped whatever it is",
     "rows": [[["0", "0"], ["4", "0"], ["4", "4"], ["0", "4"]], [["4", "0"], ["8", "0"], ["8", "4"], ["4", "4"], ["99", "99"]]]},
    {"note": "a row with two coordinates (closing edge is the reverse of the first: not created again); a triangle on it",
     "rows": [[["1", "1"], ["2", "2"], ["1", "1"]], [["2", "2"], ["1", "1"], ["3", "0"], ["2", "2"]]]},
    {"note": "edge de-duplication in both directions: second polygon runs along the shared edges in the same direction as the first",
     "rows": [[["0", "0"], ["4", "0"], ["4", "4"], ["0", "4"], ["0", "0"]], [["0", "0"], ["4", "0"], ["4", "4"], ["8", "2"], ["0", "0"]],
              [["4", "4"], ["4", "0"], ["8", "2"], ["4", "4"]]]},
    {"note": "one coordinate: SmallEdge asserts (edge from a vertex to itself)", "rows": [[["1", "2"], ["1", "2"]]]},
    {"note": "no coordinate left after dropping the last piece: Cell with no vertices", "rows": [[["1", "2"]]]},
    {"note": "consecutive repeated coordinate (spelled differently) after a good row",
     "rows": [[["0", "0"], ["4", "0"], ["4", "4"], ["0", "0"]], [["4", "4"], ["10", "0"], ["1e1", "0.0"], ["8", "8"], ["4", "4"]]]},
    {"note": "first and last-but-one coordinate equal (closing pair joins a vertex to itself)",
     "rows": [[["0", "0"], ["4", "0"], ["4", "4"], ["0", "0"], ["0", "0"]]]},
]


def wkt_tokens(case, rng):
    """per row the coordinate tokens (x string, y string), closing coordinate included"""
    kind = case.get("wkt", "voronoi")
    if kind == "rows":
        return [[(str(p[0]), str(p[1])) for p in r] for r in case["rows"]]
    if kind == "voronoi":
        topo = gen.voronoi_topo(rng, case["sites"], "random")
        if topo is None:
            return None
        tok = [(f"{round(float(p.real) * 500, 3)}", f"{round(float(p.imag) * 500, 3)}") for p in topo.J]
        return [[tok[j] for j in cyc] + [tok[cyc[0]]] for cyc in topo.cells]
    # "grid": jittered quadrilateral grid, quads split into triangles at random, every polygon in a random sense and starting
    # at a random corner, rows in random order; coordinates formatted once per grid point
    nx, ny, fmt = case["nx"], case["ny"], case["fmt"]
    def f(v):
        if fmt == "int":
            return str(int(round(v)))
        if fmt == "dec3":
            return f"{round(v, 3)}"
        if fmt == "dyadic":
            return repr(round(v * 64) / 64)
        if fmt == "exp":
            return f"{v:.6e}"
        return repr(float(v))
    off = (-300.0, 900.0) if case.get("shift") else (50.0, 50.0)
    P = {}
    for i in range(nx + 1):
        for j in range(ny + 1):
            jx, jy = (rng.random(2) - 0.5) * 12
            P[i, j] = (f(off[0] + 40 * i + jx), f(off[1] + 40 * j + jy))
    polys = []
    for i in range(nx):
        for j in range(ny):
            q = [(i, j), (i + 1, j), (i + 1, j + 1), (i, j + 1)]
            u = rng.random()
            if u < 0.25:
                polys += [[q[0], q[1], q[2]], [q[0], q[2], q[3]]]
            elif u < 0.5:
                polys += [[q[0], q[1], q[3]], [q[1], q[2], q[3]]]
            else:
                polys.append(q)
    out = []
    for k in rng.permutation(len(polys)):
        pl = polys[int(k)]
        if rng.random() < 0.5:
            pl = pl[::-1]
        r = int(rng.integers(len(pl)))
        pl = pl[r:] + pl[:r]
        out.append([P[a] for a in pl] + [P[pl[0]]])
    return out


def start_mesh(ck, case):
    rng = np.random.default_rng(case["seed"])
    t = case["type"]
    if t == "se":
        se = impl.quiet(fs.surface_evolver.SurfaceEvolver, os.path.join(REPO, case["path"]))
        return (se.vertices, se.edges, se.cells), None
    if t == "skeleton":
        sk = impl.quiet(fs.skeleton.Skeleton, os.path.join(REPO, case["path"]), mirror_y=case.get("mirror", False))
        return impl.quiet(sk.create_lattice), None
    if t == "se_gen":
        # a Surface Evolver dump written by C14's independent serialiser (ids with gaps, negative references, any wrapping,
        # unattached vertices and edges, chords) and parsed by the real parser
        from props import c14
        import tempfile
        spec = c14.tissue_spec(ck, case)
        if spec is None:
            ck.count("se_gen_rejected")
            return None, None
        d = tempfile.mkdtemp(prefix="c09_")
        try:
            pth = os.path.join(d, "g.dmp")
            with open(pth, "w", newline="") as fh:
                fh.write(c14.serialise(spec, np.random.default_rng(case["seed"] + 1)))
            se = impl.quiet(fs.surface_evolver.SurfaceEvolver, pth)
        finally:
            import shutil
            shutil.rmtree(d, ignore_errors=True)
        ck.count("se_gen_parsed")
        return (se.vertices, se.edges, se.cells), None
    if t == "skeleton_lines":
        # an explicit drawing: straight pixel lines (Bresenham) on a black image, parsed as drawn
        from props import c15
        import tempfile
        img = np.zeros((case["size"], case["size"]), dtype=np.uint8)
        for x0, y0, x1, y1 in case["lines"]:
            for x, y in c15.bresenham(x0, y0, x1, y1):
                img[y, x] = 1
        for x, y in case.get("set", []):
            img[y, x] = 1
        for x, y in case.get("clear", []):
            img[y, x] = 0
        d = tempfile.mkdtemp(prefix="c09_")
        try:
            pth = os.path.join(d, "s.tif")
            c15.to_file(img, pth, False)
            try:
                sk = impl.quiet(fs.skeleton.Skeleton, pth, mirror_y=case.get("mirror", False))
                out = c15.quiet_unraisable(sk.create_lattice)
            except Exception as ex:
                if case.get("must_parse"):
                    raise
                ck.count("skeleton_lines_parser_raised_" + type(ex).__name__)
                return None, None
        finally:
            import shutil
            shutil.rmtree(d, ignore_errors=True)
        ck.count("skeleton_lines_parsed")
        return out, None
    if t == "skeleton_gen":
        # rasterised Voronoi tissue (the generator of C15): thinned to a minimal skeleton, or left as drawn (Bresenham lines,
        # which contain the artefact triangles that trigger vertex merging); optional right-angle jogs in the walls
        from props import c15
        import tempfile
        tis, why = c15.make_tissue(case)
        if tis is None:
            ck.count("skeleton_gen_rejected_" + str(why))
            return None, None
        d = tempfile.mkdtemp(prefix="c09_")
        try:
            pth = os.path.join(d, "s.tif")
            c15.to_file(tis["img"], pth, bool(case.get("frame")))
            try:
                sk = impl.quiet(fs.skeleton.Skeleton, pth, mirror_y=case.get("mirror", False))
                if case.get("twice"):
                    # the reader is asked for its lattice a second time (the first one is dropped): the second one is the parsed mesh
                    first = c15.quiet_unraisable(impl.quiet, sk.create_lattice)
                    ck.count("skeleton_gen_second_lattice_of_one_reader")
                kw_ = {"reduce_amount": True} if case.get("reduce") else {}
                out = c15.quiet_unraisable(impl.quiet, sk.create_lattice, **kw_)
                if case.get("reduce"):
                    ck.count("skeleton_gen_parsed_with_reduce_amount")
            except Exception as ex:
                # no mesh is produced: the property is about the meshes the parsers produce (parsing itself is C15's business)
                ck.count("skeleton_gen_parser_raised_" + type(ex).__name__ + ("_thinned" if case.get("thin", True) else "_as_drawn"))
                return None, None
        finally:
            import shutil
            shutil.rmtree(d, ignore_errors=True)
        ck.count("skeleton_gen_parsed_" + ("thinned" if case.get("thin", True) else "as_drawn"))
        return out, None
    if t == "tess":
        if case.get("lattice"):
            # exactly square / hexagonal (rows shifted by half a spacing) centre sets: ridges parallel to the axes
            m_, k_, sp = case["m"], case["k"], case["spacing"]
            if case["lattice"] == "square":
                pts = np.array([(5.0 + i * sp, 7.0 + j * sp) for i in range(m_) for j in range(k_)], dtype=float)
            else:
                pts = np.array([(5.0 + i * sp * math.sqrt(3) / 2, 7.0 + (j + 0.5 * (i % 2)) * sp) for i in range(m_) for j in range(k_)], dtype=float)
        else:
            pts = rng.random((case["n"], 2)) * 100
        centers = [tuple(float(q) for q in p) for p in pts]
        if case.get("ring"):
            centers = centers + ftess.add_voronoi_centers(centers)
        el = impl.quiet(ftess.create_lattice_elements, centers, max_distance=case.get("maxd", 75))
        return impl.quiet(ftess.create_lattice, *el), None
    if t == "wkt":
        toks = wkt_tokens(case, rng)
        if toks is None:
            return None, None
        rows = ["POLYGON ((" + ", ".join(f"{xs} {ys}" for xs, ys in r) + "))" for r in toks]
        # what the code iterates over: every piece but the last; `1024 - y` is one IEEE subtraction (trusted): tokens whose
        # floating difference is not the exact one travel with their rounded value
        req = {"op": "wkt_lattice", "rows": [[[rat(float(xs)), rat(float(ys))] for xs, ys in r[:-1]] for r in toks], "flip": []}
        seen = set()
        for r in toks:
            for xs, ys in r[:-1]:
                x, y = float(xs), float(ys)
                if not (np.isfinite(x) and np.isfinite(y)):
                    return None, None
                if Fraction(1024 - y) != 1024 - Fraction(y) and y not in seen:
                    seen.add(y)
                    req["flip"].append([rat(y), rat(1024 - y)])
        ck.count("wkt_tokens_with_rounded_flip", len(seen))
        info = {"wkt_req": req, "err": None,
                "repeats": any(len({(float(xs), 1024 - float(ys)) for xs, ys in r[:-1]}) != len(r[:-1]) for r in toks)}
        try:
            dicts = impl.quiet(fwkt.create_lattice, rows)
        except Exception as ex:
            # the model knows AssertionError (SmallEdge) and FloatingPointError (empty Cell); whatever was raised is compared
            # with the model's verdict for these rows (a property failure when the rows are well-formed)
            info["err"] = type(ex).__name__
            return None, info
        info["border"] = [int(k) for k, x in dicts[2].items() if x.is_border]
        return dicts, info
    topo = gen.voronoi_topo(rng, case["sites"], case["kind"])
    if topo is None or topo.ncells() < 2:
        return None, None
    sub = None
    if case.get("subset"):
        sub = gen.connected_subsets(topo, rng, max(2, int(round(topo.ncells() * case["subset"]))))
    ks = {}
    def k_of(r):
        if r not in ks:
            ks[r] = int(rng.integers(case.get("kmin", 1), case.get("kmax", 12) + 1))
        return ks[r]
    rev = [c for c in range(topo.ncells()) if rng.random() < 0.3]
    bm = gen.build_mesh(topo, sub, rng=rng, param_mode="random", k_of_ridge=k_of, reverse_cells=rev,
                        vmap=(lambda i: 2 * i + 5) if case.get("relabel") else None,
                        emap=(lambda i: 3 * i + 2) if case.get("relabel") else None, center_method="mean")
    lists = {"v": [[int(k), rat(x.x), rat(x.y)] for k, x in bm.vertices.items()],
             "e": [[int(k), int(x.v1.id), int(x.v2.id)] for k, x in bm.edges.items()],
             "c": [[int(k), [int(vx.id) for vx in x.vertices]] for k, x in bm.cells.items()], "orphans": False}
    return (bm.vertices, bm.edges, bm.cells), lists


def run(ck):
    ck.rule = ("histories: a parser (constructors on generated tissues / Surface Evolver dump / skeleton image / tessellation / "
               "WKT) followed by a random sequence of generate_mesh(ne in 2..12, replace on/off) and Frame constructions; after "
               "every step the real dictionaries are dumped and the consistency predicate is evaluated both by the Lean driver and "
               "by an independent Python transcription; WKT inputs (Voronoi tissues rounded to 3 decimals, jittered grids of "
               "quadrilaterals/triangles in random sense and rotation with integer/decimal/dyadic/exponent/full-precision tokens, "
               "hand-written row sets with shared vertices, the id-0 vertex, unclosed and degenerate rows) are also sent as token "
               "pairs to the model of wkt.create_lattice and the dictionaries compared exactly. Non-trivial = a history with at least one editing step; distinct = parameters")
    ck.assumptions = ["CPython runs __del__ as soon as the last reference goes (the harness keeps no second reference)",
                      "object identity is evaluated on the real objects by the dumper and handed to the model as flags"]
    if ck.replaying:
        cases = [ck.replaying["case"]]
    else:
        cases = ck.corpus_cases()
        n = 14 if ck.tier == "quick" else 90
        for i in range(n):
            steps = []
            for _ in range(int(ck.rng.integers(1, 4))):
                steps.append(["genmesh", int(ck.rng.integers(2, 13)), bool(ck.rng.integers(2))] if ck.rng.random() < 0.7 else ["frame"])
            cases.append({"type": "voronoi", "seed": int(ck.rng.integers(1 << 30)), "sites": int(ck.rng.integers(10, 30)),
                          "kind": ["random", "jitter", "hex"][int(ck.rng.integers(3))], "subset": [None, 0.6, 0.3][int(ck.rng.integers(3))],
                          "kmin": [1, 0, 2][int(ck.rng.integers(3))], "kmax": [12, 3, 25][int(ck.rng.integers(3))],
                          "relabel": bool(ck.rng.integers(2)), "steps": steps})
        fx = [("se", "tests/data/initial_furrow.dmp"), ("se", "tests/data/furrow_gauss_velocity/stage5.dmp"),
              ("skeleton", "tests/data/test_nonzero.tif")]
        for t, pth in fx:
            cases.append({"type": t, "seed": 0, "path": pth, "steps": [["genmesh", 6, True], ["frame"], ["genmesh", 4, True]]})
        cases.append({"type": "skeleton", "seed": 0, "path": "tests/data/test_nonzero.tif", "mirror": True, "steps": [["genmesh", 5, False]]})
        for i in range(8 if ck.tier == "quick" else 50):
            cases.append({"type": "se_gen", "seed": int(ck.rng.integers(1 << 30)), "shape": "voronoi", "sites": int(ck.rng.integers(8, 28)),
                          "kind": ["random", "jitter", "hex"][i % 3], "subset": [None, 0.6, 0.3][i % 3], "kmax": [0, 1, 3][(i // 3) % 3],
                          "idmode": i % 3, "wrap": ["shipped", 2, 5, 60][i % 4], "p_flip": [0.5, 0.0, 1.0, 0.3][i % 4], "p_dens": 0.8, "p_orig": 0.3,
                          "p_rev": [0.0, 0.5, 1.0][i % 3], "extra_v": i % 3, "extra_e": (i % 2) * 3, "chords": 1 if i % 4 == 1 else 0,
                          "scale": 2, "tx": 0.0, "ty": 0.0, "nl": ["\n", "\r\n"][i % 2], "order": ["sorted", "shuffled"][i % 2],
                          "p_suffix": 0.0, "body_ids": "face",
                          "steps": [["genmesh", int(ck.rng.integers(2, 8)), False], ["frame"]] if i % 2 else [["frame"], ["genmesh", 4, True]]})
        for i in range(8 if ck.tier == "quick" else 40):
            cases.append({"type": "skeleton_gen", "seed": int(ck.rng.integers(1 << 30)), "sites": int(ck.rng.integers(24, 46)), "lloyd": int(ck.rng.integers(1, 4)),
                          "ppc": int(ck.rng.integers(35, 46)), "subset_n": int(ck.rng.integers(6, 12)), "thin": bool(i % 2), "frame": bool((i // 2) % 2),
                          "mirror": bool((i // 4) % 2), "twice": bool(i % 2 == 1), "reduce": bool(i % 2 == 0),
                          "steps": [["genmesh", int(ck.rng.integers(3, 10)), bool(i % 3 == 0)], ["frame"]]})
        for i in range(2 if ck.tier == "quick" else 8):
            cases.append({"type": "tess", "seed": int(ck.rng.integers(1 << 30)), "n": int(ck.rng.integers(12, 60)), "ring": bool(i % 2),
                          "maxd": [75, 40, 1e9][i % 3], "steps": [["frame"], ["genmesh", 3, True]]})
            cases.append({"type": "wkt", "seed": int(ck.rng.integers(1 << 30)), "sites": int(ck.rng.integers(10, 25)), "steps": [["genmesh", 4, False]]})
        for i in range(4 if ck.tier == "quick" else 16):
            cases.append({"type": "tess", "seed": int(ck.rng.integers(1 << 30)), "lattice": ["square", "hex"][i % 2], "m": int(ck.rng.integers(3, 7)),
                          "k": int(ck.rng.integers(3, 7)), "spacing": float(ck.rng.choice([1.0, 4.0, 10.0])), "ring": bool((i // 2) % 2),
                          "maxd": [75, 1e9][(i // 2) % 2], "steps": [["frame"], ["genmesh", 3, True]]})
        for rs in WKT_ROWSETS:
            cases.append({"type": "wkt", "wkt": "rows", "seed": 0, "rows": rs["rows"], "steps": [["frame"]]})
        for i in range(5 if ck.tier == "quick" else 30):
            cases.append({"type": "wkt", "wkt": "grid", "seed": int(ck.rng.integers(1 << 30)), "nx": int(ck.rng.integers(1, 6)),
                          "ny": int(ck.rng.integers(1, 5)), "fmt": ["int", "dec3", "repr", "dyadic", "exp"][i % 5], "shift": bool((i // 5) % 2),
                          "steps": [["genmesh", int(ck.rng.integers(2, 7)), False], ["frame"]] if i % 2 else [["frame"]]})
    reqs, pending = [], []
    keep = []
    def one(case):
        dicts, lists = start_mesh(ck, case)
        wk = None
        if lists is not None and "wkt_req" in lists:
            wk, lists = lists, None
        if dicts is None:
            if wk is not None:
                # create_lattice raised: compared with the model's verdict below
                reqs.append(wk["wkt_req"])
                pending.append(("wkt", case, None, wk))
                ck.count("wkt_raised_" + wk["err"])
                ck.case(case, nontrivial=False)
                return
            ck.count("rejected")
            return
        v, e, c = dicts
        hist = ["parse"]
        stage_ok = True

        def snapshot(label, chain=False):
            bad = py_consistent(v, e, c)
            if bad:
                # a WKT ring that repeats a coordinate (touches itself) is taken over as a cell repeating a vertex
                sig = "wkt-row-repeats-a-coordinate" if (wk is not None and wk["repeats"]) else None
                # finding D17 (see C11): two two-point interfaces that are both candidates for merging share a vertex
                if chain:
                    sig = "merge-chain-of-two-point-border-interfaces"
                ck.fail(f"mesh consistent after {label}", "; ".join(bad[:3]), dict(case, upto=list(hist)), signature=sig)
            reqs.append({"op": "consistent", "mesh": mesh_json(v, e, c)})
            pending.append(("cons", dict(case, upto=list(hist)), not bad, None))
            ck.count("dumps")
            return not bad
        snapshot("parsing")
        if wk is not None:
            reqs.append(wk["wkt_req"])
            pending.append(("wkt", case, mesh_json(v, e, c), wk))
            ck.count("wkt_" + case.get("wkt", "voronoi"))
        if lists is not None:
            reqs.append(dict(lists, op="of_lists"))
            pending.append(("oflists", case, mesh_json(v, e, c), None))
        ck.count("parser_" + case["type"])
        for st in case.get("steps", []):
            if st[0] == "genmesh":
                chain = False
                if st[2]:
                    ncell = {int(k): len(x.ownCells) for k, x in v.items()}
                    cand = [[int(q) for q in p] for p in ve.create_edges_new(v, c)]
                    cand = [p for p in cand if len(p) == 2 and len(p) <= st[1] and ncell[p[0]] < 3 and ncell[p[1]] < 3]
                    ends = [q for p in cand for q in p]
                    chain = len(set(ends)) < len(ends)
                try:
                    v, e, c, _ = impl.quiet(ve.generate_mesh, v, e, c, ne=st[1], replace_short_edges=st[2])
                except Exception as ex:
                    # failures of the resampling itself are C11's business (finding D17); the history stops here
                    ck.count("generate_mesh_raised_" + type(ex).__name__)
                    break
                hist.append(st)
                if not snapshot(f"generate_mesh(ne={st[1]}, replace_short_edges={st[2]})", chain):
                    break           # nothing can be said about later steps on a mesh that is already inconsistent
            else:
                fr = impl.make_frame((v, e, c))
                keep.append(fr)
                hist.append(st)
                snapshot("Frame construction")
        keep.append((v, e, c))
        ck.case(case, nontrivial=len(hist) > 1,
                sample=({"case": case, "vertices": len(v), "edges": len(e), "cells": len(c)} if len(ck.samples) < 3 else None))

    for case in cases:
        ck.guard(case, one, case)
    resps = ck.driver(reqs)
    for (kind, case, a, b), resp in zip(pending, resps):
        if kind == "cons":
            if resp["ok"] != a:
                ck.disagree("Consistent", f"Lean {resp['ok']} {resp['failing']} vs Python {a}", case)
            elif not resp["ok"]:
                pass  # already reported by the Python oracle with the failing clause
        elif kind == "wkt":
            wk = b
            if resp["wf"] and (resp["error"] is not None or not resp["consistent"]):
                ck.disagree("wkt_wf_consistent vs evaluation of the model", f"wf rows but {resp['error']} {resp.get('failing')}", case)
            if resp["nodup"] and resp["error"] is None and not resp["consistent"]:
                ck.disagree("wkt_consistent vs evaluation of the model", str(resp.get("failing")), case)
            if resp["error"] != wk["err"]:
                if resp["wf"]:
                    ck.fail("wkt.create_lattice completes on well-formed rows", f"raised {wk['err']}", case)
                else:
                    ck.disagree("wkt.create_lattice: exception", f"Lean {resp['error']} vs Python {wk['err']}", case)
            elif resp["error"] is None:
                def normw(m):
                    return {"v": [[r[0], r[1], unrat(r[2]), unrat(r[3]), list(r[4]), list(r[5])] for r in m["v"]],
                            "e": [list(r[:5]) for r in m["e"]], "c": [[r[0], r[1], list(r[2]), r[3]] for r in m["c"]]}
                want, got = normw(a), normw(resp["mesh"])
                for part, name in (("v", "vertices"), ("e", "edges"), ("c", "cells")):
                    if want[part] != got[part]:
                        diff = next((f"Python {x} vs Lean {y}" for x, y in zip(want[part], got[part]) if x != y),
                                    f"Python has {len(want[part])} entries, Lean {len(got[part])}")
                        ck.disagree(f"wkt.create_lattice: {name} dictionary", diff[:300], case)
                        break
                if resp["border"] != wk["border"]:
                    ck.disagree("wkt.create_lattice: is_border", f"Python truthy for {wk['border']}", case)
        else:
            want = a
            got = resp["mesh"]
            def norm(m):
                return ([[r[0], r[1], float(unrat(r[2])), float(unrat(r[3])), r[4], r[5]] for r in m["v"]],
                        [r[:4] for r in m["e"]], [r[:3] for r in m["c"]])
            if norm(want) != norm(got):
                ck.disagree("ofLists vs real constructors", "dictionaries differ", case)
            if not resp["consistent"]:
                ck.disagree("ofLists consistent", str(resp["failing"]), case)
