"""C20 — cell geometry primitives: signed area, perimeter, orientation, neighbours.

K (correspondence): Cell.get_area / get_area_sign / get_next_vertex / get_previous_vertex / get_perimeter /
    get_cm / calculate_neighbors of the real code vs. the Lean model (area, sign, navigation exact; area and
    perimeter at 1e-9 relative because the code computes them in floating point).
S (property oracle on the real code): independent shoelace, reversal/shift/translation/scaling laws,
    closed-cycle perimeter, navigation sense, area additivity over hole-free tissues, neighbours by shared vertex.
"""
import math
import numpy as np

import gen
from dump import rat, unrat, mesh_json

import forsys.vertex as fvertex
import forsys.cell as fcell

REL = 1e-9


def make_cell(pts, cid=0):
    vs = [fvertex.Vertex(i, float(x), float(y)) for i, (x, y) in enumerate(pts)]
    return fcell.Cell(cid, vs, center_method="mean"), vs


def shoelace(pts):
    n = len(pts)
    return 0.5 * math.fsum(pts[i][0] * pts[(i + 1) % n][1] - pts[(i + 1) % n][0] * pts[i][1] for i in range(n))


def closed_length(pts):
    n = len(pts)
    return math.fsum(math.hypot(pts[i][0] - pts[(i + 1) % n][0], pts[i][1] - pts[(i + 1) % n][1]) for i in range(n))


def polygon_case(rng_seed, n, kind, orient, shift, tx, ty, sc):
    rng = np.random.default_rng(rng_seed)
    pts = gen.random_polygon(rng, n, kind)
    if sc < 1e-3:
        # small length units: the offset shrinks with the unit (an offset of 100 on a polygon of size 1e-7 leaves no significant
        # digits for the shoelace sum — float cancellation, not a property of the code)
        tx, ty = tx * sc * 1e3, ty * sc * 1e3
    pts = [(sc * x + tx, sc * y + ty) for x, y in pts]
    if orient < 0:
        pts = pts[::-1]
    s = shift % n
    return pts[s:] + pts[:s]


def observe_cell(cell):
    vs = list(cell.vertices)
    return {"area": float(cell.get_area()), "sign": int(cell.get_area_sign()),
            "next": [vs.index(cell.get_next_vertex(v)) for v in vs],
            "prev": [vs.index(cell.get_previous_vertex(v)) for v in vs],
            "perimeter": float(cell.get_perimeter())}


def observe(pts):
    cell, vs = make_cell(pts)
    obs = {"area": float(cell.get_area()), "sign": int(cell.get_area_sign()),
           "next": [vs.index(cell.get_next_vertex(v)) for v in vs],
           "prev": [vs.index(cell.get_previous_vertex(v)) for v in vs],
           "perimeter": float(cell.get_perimeter()),
           "cm": [float(c) for c in cell.get_cm()]}
    return obs


def oracle(ck, pts, obs, case):
    """the property, evaluated on the implementation's outputs"""
    n = len(pts)
    scale2 = max(1e-300, max(abs(x) for p in pts for x in p) ** 2) * n
    sh = shoelace(pts)
    if abs(obs["area"] + sh) > REL * scale2:
        ck.fail("area is minus the shoelace area (negative for CCW in y-up)", f"area={obs['area']} shoelace={sh}", case)
    want_sign = -1 if sh > 0 else 1
    if obs["sign"] != want_sign:
        ck.fail("area sign", f"sign={obs['sign']} shoelace={sh}", case)
    per = closed_length(pts)
    if abs(obs["perimeter"] - per) > REL * max(per, 1e-300) * n:
        ck.fail("perimeter is the closed-cycle length", f"{obs['perimeter']} vs {per}", case)
    s = obs["sign"]
    if obs["next"] != [(i + s) % n for i in range(n)] or obs["prev"] != [(i - s) % n for i in range(n)]:
        ck.fail("navigation walks the cycle in the sense of the area sign", f"next={obs['next']} prev={obs['prev']} sign={s}", case)
    # metamorphic laws on the real code
    rev = observe(pts[::-1])
    if abs(rev["area"] + obs["area"]) > REL * scale2 or rev["sign"] != -obs["sign"]:
        ck.fail("reversal flips the sign of the area", f"{rev['area']} vs {obs['area']}", case)
    if abs(rev["perimeter"] - obs["perimeter"]) > REL * per * n:
        ck.fail("perimeter unchanged by reversal", f"{rev['perimeter']} vs {obs['perimeter']}", case)
    k = 1 + (case.get("seed", 0) % max(1, n - 1))
    rot = observe(pts[k:] + pts[:k])
    if abs(rot["area"] - obs["area"]) > REL * scale2 or abs(rot["perimeter"] - obs["perimeter"]) > REL * per * n:
        ck.fail("cyclic shift invariance", f"shift {k}: area {rot['area']} vs {obs['area']}, perimeter {rot['perimeter']} vs {obs['perimeter']}", case)
    # the same laws on ONE cell object whose stored cycle is replaced (as the repository's own tests do): every quantity follows
    # the cycle that is stored now — reversed, shifted, reversed back
    cell, vs = make_cell(pts)
    observe_cell(cell)
    for label, newpts in (("reversed in place", pts[::-1]), ("shifted in place", (pts[::-1])[k:] + (pts[::-1])[:k]), ("restored", pts)):
        order = {p: i for i, p in enumerate(pts)}
        cell.vertices = [vs[order[p]] for p in newpts] if len(order) == n else cell.vertices
        if len(order) != n:
            break
        got = observe_cell(cell)
        fresh = observe(newpts)
        if any(got[key] != fresh[key] for key in ("area", "sign", "next", "prev", "perimeter")):
            ck.fail("area, sign, perimeter and navigation follow the stored cycle (cycle " + label + ")",
                    f"same cell object: sign {got['sign']} next[:3] {got['next'][:3]}; fresh cell with that cycle: sign {fresh['sign']} next[:3] {fresh['next'][:3]}", case)
            break
    ext = max(max(p[0] for p in pts) - min(p[0] for p in pts), max(p[1] for p in pts) - min(p[1] for p in pts))
    dx, dy = 3.25 * ext, -7.5 * ext       # in the polygon's own length unit (cancellation otherwise)
    tr = observe([(x + dx, y + dy) for x, y in pts])
    big = max(scale2, (abs(dx) + abs(dy)) ** 2 * n)
    if abs(tr["area"] - obs["area"]) > 1e-8 * big or abs(tr["perimeter"] - obs["perimeter"]) > REL * (per + abs(dx) + abs(dy)) * n * 2:
        ck.fail("translation invariance", f"area {tr['area']} vs {obs['area']}", case)
    lam = 2.5
    sc = observe([(lam * x, lam * y) for x, y in pts])
    if abs(sc["area"] - lam * lam * obs["area"]) > REL * scale2 * lam * lam * 4 or \
            abs(sc["perimeter"] - lam * obs["perimeter"]) > REL * per * lam * n:
        ck.fail("scaling: area ~ factor², perimeter ~ factor", f"area {sc['area']} vs {lam*lam*obs['area']}", case)


def compare_model(ck, pts, obs, resp, case):
    n = len(pts)
    scale2 = max(1e-300, max(abs(x) for p in pts for x in p) ** 2) * n
    marea = float(unrat(resp["area"]))
    if abs(marea - obs["area"]) > REL * scale2:
        ck.disagree("area", f"model {marea} impl {obs['area']}", case)
    if abs(marea) > 1e-10 * scale2:   # sign only compared away from degenerate polygons
        if resp["sign"] != obs["sign"]:
            ck.disagree("sign", f"model {resp['sign']} impl {obs['sign']}", case)
        if resp["next"] != obs["next"] or resp["prev"] != obs["prev"]:
            ck.disagree("navigation", f"model {resp['next']}/{resp['prev']} impl {obs['next']}/{obs['prev']}", case)
        mper = math.fsum(math.sqrt(float(unrat(q))) for q in resp["perimSq"])
        if abs(mper - obs["perimeter"]) > REL * max(mper, 1e-300) * n:
            ck.disagree("perimeter", f"model {mper} impl {obs['perimeter']}", case)
    else:
        ck.count("degenerate_area_skipped")
    mcm = [float(unrat(q)) for q in resp["cm"]]
    if max(abs(a - b) for a, b in zip(mcm, obs["cm"])) > REL * math.sqrt(scale2):
        ck.disagree("cm", f"model {mcm} impl {obs['cm']}", case)


def outline_area(bm):
    """area enclosed by the outline of the tissue: directed boundary segments = those whose reverse is in no cell"""
    segs = set()
    for c in bm.cells.values():
        ids = [v.id for v in c.vertices]
        if c.get_area_sign() > 0:          # clockwise in y-up (area sign convention of the code): reverse to CCW
            ids = ids[::-1]
        for a, b in zip(ids, ids[1:] + ids[:1]):
            segs.add((a, b))
    total = 0.0
    nb = 0
    for (a, b) in segs:
        if (b, a) not in segs:
            va, vb = bm.vertices[a], bm.vertices[b]
            total += 0.5 * (va.x * vb.y - vb.x * va.y)
            nb += 1
    return total, nb


def tissue_case(ck, case):
    rng = np.random.default_rng(case["seed"])
    if case["kind"] in ("square", "brick"):
        topo = gen.lattice_topo(case["kind"], case.get("nx", 4), case.get("ny", 3))
    else:
        topo = gen.voronoi_topo(rng, case["sites"], case["kind"])
    if topo is None or topo.ncells() < 2:
        ck.count("tissue_rejected")
        return None
    sub = None
    if case.get("subset"):
        sub = gen.connected_subsets(topo, rng, max(2, int(topo.ncells() * case["subset"])))
    rev = [c for c in range(topo.ncells()) if rng.random() < case.get("p_rev", 0.0)]
    shifts = {c: int(rng.integers(0, 40)) for c in range(topo.ncells())} if case.get("shifts") else None
    bm = gen.build_mesh(topo, sub, k=case["k"], rng=rng, param_mode="random", reverse_cells=rev, shifts=shifts,
                        vmap=(lambda i: 7 * i + 3), cmap=(lambda i: 5 * i + 11), center_method="mean")
    return topo, sub, bm


def run_tissue(ck, case, reqs, pending):
    built = tissue_case(ck, case)
    if built is None:
        return
    topo, sub, bm = built
    cells_sel = sub if sub is not None else list(range(topo.ncells()))
    # S: neighbours = other cells sharing a vertex
    want = {}
    for c in cells_sel:
        cid = bm.cid_of_cell[c]
        vs = set(v.id for v in bm.cells[cid].vertices)
        want[cid] = sorted(d for d, cl in bm.cells.items() if d != cid and vs & set(v.id for v in cl.vertices))
    got = {cid: sorted(int(x) for x in cl.calculate_neighbors()) for cid, cl in bm.cells.items()}
    if got != want:
        bad = [cid for cid in want if want[cid] != got.get(cid)]
        ck.fail("neighbours are exactly the other cells sharing a vertex", f"cells {bad[:3]}: got {[got[b] for b in bad[:3]]} want {[want[b] for b in bad[:3]]}", case)
    # S: additivity on hole-free tissues (the whole Voronoi patch, or a subset without holes)
    areas = [cl.get_area() for cl in bm.cells.values()]
    out, nb = outline_area(bm)
    tot = math.fsum(abs(a) for a in areas)
    holes = case.get("subset") is not None and not hole_free(topo, cells_sel)
    if not holes:
        if abs(tot - abs(out)) > 1e-8 * max(tot, 1e-300):
            ck.fail("absolute cell areas add up to the outline area", f"sum {tot} outline {out}", case)
        ck.count("additivity_checked")
    else:
        ck.count("subset_with_hole_skipped_for_additivity")
    reqs.append({"op": "frame", "mesh": mesh_json(bm.vertices, bm.edges, bm.cells)})
    pending.append(("tissue", case, got, bm))
    # per-cell geometry through the model too (first few cells)
    for cid, cl in list(bm.cells.items())[:4]:
        pts = [(v.x, v.y) for v in cl.vertices]
        obs = observe(pts)
        oracle(ck, pts, obs, dict(case, cell=cid))
        reqs.append({"op": "cell_geom", "pts": [[rat(x), rat(y)] for x, y in pts]})
        pending.append(("poly", dict(case, cell=cid), pts, obs))
    # the neighbours of a cell also depend on which other cells exist: after a cell has been removed from the tissue (its
    # destructor unregisters it from its vertices) every remaining cell is asked again
    if len(bm.cells) >= 3:
        victim = sorted(bm.cells)[case["seed"] % len(bm.cells)]
        cl = None
        del bm.cells[victim]
        import gc
        gc.collect()
        still = [cid for cid, c_ in bm.cells.items() if any(victim in v.ownCells for v in c_.vertices)]
        if still:
            ck.count("removed_cell_still_listed_by_vertices")        # this harness holds no other reference to the cell: the package does
        if True:
            want2 = {}
            for cid, c_ in bm.cells.items():
                vs = set(v.id for v in c_.vertices)
                want2[cid] = sorted(d for d, o in bm.cells.items() if d != cid and vs & set(v.id for v in o.vertices))
            got2 = {cid: sorted(int(x) for x in c_.calculate_neighbors()) for cid, c_ in bm.cells.items()}
            if got2 != want2:
                bad = [cid for cid in want2 if want2[cid] != got2.get(cid)]
                ck.fail("neighbours are exactly the other cells sharing a vertex (after a cell has been removed from the tissue)",
                        f"removed {victim}; cells {bad[:3]}: got {[got2[b] for b in bad[:3]]} want {[want2[b] for b in bad[:3]]}", case)
            ck.count("neighbours_after_removal_checked")
    ck.case(case, sample={"tissue": case, "cells": len(bm.cells), "vertices": len(bm.vertices)} if case.get("first") else None)
    ck.count("tissues")


def hole_free(topo, subset):
    """the union of the subset's cells has a connected complement (checked on the cell adjacency graph incl. outside)"""
    s = set(subset)
    others = [c for c in range(topo.ncells()) if c not in s]
    adj = topo.adjacency()
    # cells touching the unbounded outside: those with a ridge owned by a single cell
    outer = {c for r, cs in topo.ridges.items() if len(cs) == 1 for c in cs}
    seen = set(c for c in others if c in outer)
    stack = list(seen)
    while stack:
        c = stack.pop()
        for d in adj[c]:
            if d not in s and d not in seen:
                seen.add(d); stack.append(d)
    # complement cells not reachable from outside = holes; also a subset cell ring can enclose nothing else
    return all(c in seen for c in others)


def run(ck):
    ck.rule = ("random simple polygons (star-shaped non-convex / convex, 3..80 vertices, both orientations, every case "
               "with its own cyclic shift, translation and scale) and Voronoi tissues / connected sub-tissues with "
               "random interior points; a case is non-trivial when the polygon has non-degenerate area; distinct = "
               "distinct generator parameters (hash of the case description)")
    ck.assumptions = ["IEEE sqrt and float summation inside get_perimeter/get_area are trusted (compared at 1e-9 relative)",
                      "dataclass equality of Vertex objects coincides with identity for vertices with distinct ids"]
    reqs, pending = [], []
    if ck.replaying:
        cases = [ck.replaying["case"]]
    else:
        npoly = 60 if ck.tier == "quick" else 600
        ntis = 8 if ck.tier == "quick" else 60
        cases = ck.corpus_cases()
        for i in range(npoly):
            n = int(ck.rng.integers(3, 81)) if i % 5 else int(ck.rng.integers(3, 7))
            cases.append({"type": "polygon", "seed": int(ck.rng.integers(1 << 30)), "n": n,
                          "kind": "convex" if i % 4 == 0 else "star", "orient": 1 if ck.rng.random() < 0.5 else -1,
                          "shift": int(ck.rng.integers(0, n)), "tx": float(np.round(ck.rng.normal() * 10.0 ** int(ck.rng.integers(-1, 3)), 3)),
                          "ty": float(np.round(ck.rng.normal() * 10.0 ** int(ck.rng.integers(-1, 3)), 3)),
                          "sc": float(10.0 ** int(ck.rng.integers(-7, 4)))})
        for i in range(ntis):
            cases.append({"type": "tissue", "seed": int(ck.rng.integers(1 << 30)), "sites": int(ck.rng.integers(12, 45)),
                          "kind": ["random", "jitter", "hex"][i % 3], "k": int(ck.rng.integers(0, 6)),
                          "subset": None if i % 2 == 0 else float(ck.rng.uniform(0.3, 0.8)),
                          "p_rev": [0.0, 0.5, 1.0][i % 3], "first": i == 0, "shifts": bool(i % 2)})
        for i in range(6 if ck.tier == "quick" else 40):
            # junctions of four cells (neighbours that share a single vertex): square lattices, Voronoi tissues with concyclic sites
            cases.append({"type": "tissue", "seed": int(ck.rng.integers(1 << 30)), "sites": int(ck.rng.integers(20, 45)),
                          "kind": ["square", "quad", "brick"][i % 3], "nx": int(ck.rng.integers(2, 6)), "ny": int(ck.rng.integers(2, 5)),
                          "k": [0, 0, 2][i % 3] if i % 3 != 1 else int(ck.rng.integers(0, 3)), "subset": None,
                          "p_rev": [0.0, 0.5][i % 2], "shifts": True})
    def one(case):
        if case["type"] == "polygon":
            pts = polygon_case(case["seed"], case["n"], case["kind"], case["orient"], case["shift"], case["tx"], case["ty"], case["sc"])
            obs = observe(pts)
            oracle(ck, pts, obs, case)
            reqs.append({"op": "cell_geom", "pts": [[rat(x), rat(y)] for x, y in pts]})
            pending.append(("poly", case, pts, obs))
            ck.case(case, sample={"polygon": case, "first_points": pts[:3]} if len(ck.samples) < 2 else None)
            ck.count("polygons"); ck.count("orient_ccw" if shoelace(pts) > 0 else "orient_cw")
        else:
            run_tissue(ck, case, reqs, pending)

    for case in cases:
        ck.guard(case, one, case)
    resps = ck.driver(reqs)
    for (kind, case, a, b), resp in zip(pending, resps):
        if kind == "poly":
            compare_model(ck, a, b, resp, case)
        else:
            got = a
            model = {int(cid): sorted(int(x) for x in nb) for cid, nb in resp["neighbors"]}
            if model != got:
                ck.disagree("neighbors", f"model {list(model.items())[:3]} impl {list(got.items())[:3]}", case)
