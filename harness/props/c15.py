"""C15 — skeleton images are parsed into the tissue's true topology.

What is decided, and how (evidence level "other": a proved core + per-run checks around an unverified kernel):

K (correspondence, exact): the contour lists of the real parser (`Skeleton.contours`, i.e. OpenCV's output after the
    code's own filtering) are fed to the Lean model `Skel.createLattice`; compared with the real `create_lattice()`:
    the exception kind, or — all three dictionaries in dict order (ids, coordinates, ownEdges / ownCells in list order,
    mesh-edge ends, cell cycles, object-identity flags), `is_border` cells, `external` mesh edges, `all_big_edges`, and a
    snapshot of the dictionaries taken when `get_artifacts` is entered (= state after the first loop and the border
    flags whenever the inner-triangle loop deleted nothing).  Inputs: the shipped TIFF, rasterised tissues small
    enough for the interpreted model, and small random line drawings / noise images (outside the property's domain;
    they reach every clean-up branch incl. the exceptions).
S (the property on the real code, independent computation): Skeleton -> create_lattice -> generate_mesh(ne) -> Frame on
    rasterised Voronoi tissues, rasterised tissues of quadrilateral cells with four-fold junctions (`make_quad_tissue`:
    every interior junction of the lattice is one minimal junction pixel with four diagonal arms; also rows shifted against
    each other = three-fold and four-fold junctions mixed, and edge-connected parts of the lattice) and the shipped TIFF
    under the 8 symmetries of the square, padding, frame / no frame and mirror_y: exactly one cell per enclosed region of the raster oracle (bijection by point-in-polygon of the region's
    innermost pixel), border flag <=> region touches the outside, internal interfaces <=> the generating topology's
    ridges between two kept cells with an end junction shared by three or more kept cells (shipped TIFF: the raster
    oracle's radius-2 junction rule; four-fold tissues: regions that meet in the single pixel of an X crossing only have no
    common boundary line and are taken out of the raster oracle's adjacency before it is compared with the topology), mesh consistency after each stage (Python transcription; Lean `Mesh.Consistent` on the
    dumps), Frame construction succeeds; metamorphic: all of it expressed in the base image's region numbers is the
    same for every variant, plus the number of junction vertices.
    The raster oracle exists twice (scipy.ndimage here, `Raster.analyse` in Lean); both are run on small images and
    compared.
"""
import collections
import math
import os
import shutil
import sys
import tempfile

import numpy as np
import scipy.ndimage as ndi
import scipy.spatial as sps
from PIL import Image

import gen
import impl
from core import REPO
from dump import mesh_json, unrat
from props.c09 import py_consistent

import forsys as fs
import forsys.virtual_edges as ve

SIG_D16 = "last-mesh-edge-inside-artefact"
FOUR = np.array([[0, 1, 0], [1, 1, 1], [0, 1, 0]])
RING = [(-1, 0), (-1, 1), (0, 1), (1, 1), (1, 0), (1, -1), (0, -1), (-1, -1)]   # N NE E SE S SW W NW
SYMS = {"id": lambda a: a, "r90": lambda a: np.rot90(a, 1), "r180": lambda a: np.rot90(a, 2),
        "r270": lambda a: np.rot90(a, 3), "fliplr": np.fliplr, "flipud": np.flipud, "T": lambda a: a.T,
        "antiT": lambda a: np.rot90(a, 2).T}
LEAN_CONSISTENT_MAX = 700     # vertices: Mesh.Consistent is quadratic in the interpreter
LEAN_MODEL_MAX = 3500         # contour pixels handed to the interpreted model


# ------------------------------------------------------------------------------------------------ rasteriser
def bresenham(x0, y0, x1, y1):
    pts = []
    dx, dy = abs(x1 - x0), -abs(y1 - y0)
    sx = 1 if x0 < x1 else -1
    sy = 1 if y0 < y1 else -1
    err = dx + dy
    while True:
        pts.append((x0, y0))
        if x0 == x1 and y0 == y1:
            return pts
        e2 = 2 * err
        if e2 >= dy:
            err += dy
            x0 += sx
        if e2 <= dx:
            err += dx
            y0 += sy


def simple_point(img, r, c):
    """(8,4)-simple and not an end point: deleting skeleton pixel (r, c) changes neither the 8-components of the skeleton
    nor the 4-components of the background (Yokoi's 8-connectivity number is 1)"""
    x = [1 if img[r + dr, c + dc] else 0 for dr, dc in RING]
    if sum(x) < 2:
        return False
    n8 = 0
    for k in (0, 2, 4, 6):
        a, b, cc = 1 - x[k], 1 - x[(k + 1) % 8], 1 - x[(k + 2) % 8]
        n8 += a - a * b * cc
    return n8 == 1


def thin(img):
    """clean to minimal 8-connectivity: delete simple pixels (sequentially, raster order) until none is left"""
    img = img.copy()
    H, W = img.shape
    changed = True
    while changed:
        changed = False
        rs, cs = np.nonzero(img)
        for r, c in zip(rs, cs):
            if 0 < r < H - 1 and 0 < c < W - 1 and img[r, c] and simple_point(img, r, c):
                img[r, c] = 0
                changed = True
    return img


def minimal(img):
    H, W = img.shape
    rs, cs = np.nonzero(img)
    return not any(0 < r < H - 1 and 0 < c < W - 1 and simple_point(img, r, c) for r, c in zip(rs, cs))


def fill_small_holes(img, max_area):
    lab, n = ndi.label(img == 0, structure=FOUR)
    out = img.copy()
    k = 0
    if n:
        sizes = ndi.sum(np.ones_like(lab), lab, index=np.arange(1, n + 1))
        for i, s in enumerate(sizes, start=1):
            if s <= max_area:
                out[lab == i] = 1
                k += 1
    return out, k


# ------------------------------------------------------------------------------------------------ raster oracle (Python)
def py_raster(img, rad=2):
    """the definitions of lean/ForsysModel/Model/Raster.lean, with scipy: enclosed regions (numbered in raster order of
    their first pixel), regions touching the outside, adjacent pairs, triples meeting in an interior junction, pairs with
    an internal interface; `lab`: 0 skeleton, 1..n regions, n+1 outside"""
    raw, m = ndi.label(img == 0, structure=FOUR)
    frame = set(raw[0, :]) | set(raw[-1, :]) | set(raw[:, 0]) | set(raw[:, -1])
    frame.discard(0)
    first = {}
    flat = raw.ravel()
    idx = np.nonzero(flat)[0]
    vals, pos = np.unique(flat[idx], return_index=True)
    for v, p in zip(vals, pos):
        first[int(v)] = int(idx[p])
    enclosed = sorted((l for l in range(1, m + 1) if l not in frame), key=lambda l: first[l])
    n = len(enclosed)
    num = np.zeros(m + 1, dtype=np.int64)
    for l in range(1, m + 1):
        num[l] = n + 1
    for i, l in enumerate(enclosed):
        num[l] = i + 1
    lab = num[raw]
    H, W = img.shape
    border, adj, triples = set(), set(), set()
    rs, cs = np.nonzero(img)
    for r, c in zip(rs, cs):
        near = set(np.unique(lab[max(r - 1, 0):r + 2, max(c - 1, 0):c + 2]).tolist()) - {0}
        reg = sorted(x for x in near if x <= n)
        if n + 1 in near:
            border.update(reg)
        for i in range(len(reg)):
            for j in range(i + 1, len(reg)):
                adj.add((reg[i], reg[j]))
        far = near if rad == 1 else set(np.unique(lab[max(r - rad, 0):r + rad + 1, max(c - rad, 0):c + rad + 1]).tolist()) - {0}
        reg = sorted(x for x in far if x <= n)
        for i in range(len(reg)):
            for j in range(i + 1, len(reg)):
                for k in range(j + 1, len(reg)):
                    triples.add((reg[i], reg[j], reg[k]))
    internal = {ab for ab in adj if any(set(ab) <= set(t) for t in triples)}
    sizes = [int((lab == i).sum()) for i in range(1, n + 1)]
    return {"n": n, "sizes": sizes, "border": sorted(border), "adj": sorted(adj), "triples": sorted(triples),
            "internal": sorted(internal), "lab": lab}


# ------------------------------------------------------------------------------------------------ tissues
def lloyd(pts, k):
    for _ in range(k):
        allp = np.vstack([pts, pts * [-1, 1], pts * [1, -1], pts * [-1, 1] + [2, 0], pts * [1, -1] + [0, 2]])
        vor = sps.Voronoi(allp)
        new = []
        for i in range(len(pts)):
            P = vor.vertices[vor.regions[vor.point_region[i]]]
            P = P[np.argsort(np.arctan2(P[:, 1] - pts[i, 1], P[:, 0] - pts[i, 0]))]
            x, y = P[:, 0], P[:, 1]
            cr = x * np.roll(y, -1) - np.roll(x, -1) * y
            A = cr.sum() / 2
            new.append((((x + np.roll(x, -1)) * cr).sum() / (6 * A), ((y + np.roll(y, -1)) * cr).sum() / (6 * A)))
        pts = np.array(new)
    return pts


def topo_from_points(pts):
    """bounded Voronoi cells inside the bounding box of the sites (as gen.voronoi_topo, for given sites)"""
    vor = sps.Voronoi(pts)
    lo, hi = pts.min(0), pts.max(0)
    used, J, cells, sites = {}, [], [], []
    for pi, ri in enumerate(vor.point_region):
        reg = vor.regions[ri]
        if len(reg) < 3 or -1 in reg:
            continue
        vs = vor.vertices[reg]
        if np.any(vs < lo) or np.any(vs > hi):
            continue
        ang = np.arctan2(vs[:, 1] - pts[pi, 1], vs[:, 0] - pts[pi, 0])
        cyc = []
        for v in [reg[k] for k in np.argsort(ang)]:
            if v not in used:
                used[v] = len(J)
                J.append(complex(vor.vertices[v][0], vor.vertices[v][1]))
            cyc.append(used[v])
        cells.append(cyc)
        sites.append(complex(pts[pi][0], pts[pi][1]))
    return gen.Topo(J, cells, sites)


def components(topo, keep):
    keep = set(keep)
    adj = topo.adjacency()
    seen, out = set(), []
    for c in sorted(keep):
        if c in seen:
            continue
        comp, todo = {c}, [c]
        while todo:
            x = todo.pop()
            for y in sorted(adj[x]):
                if y in keep and y not in comp:
                    comp.add(y)
                    todo.append(y)
        seen |= comp
        out.append(comp)
    return out


def geometry(topo, keep, S):
    used = sorted({j for c in keep for j in topo.cells[c]})
    P = {j: (int(round(topo.J[j].real * S)), int(round(topo.J[j].imag * S))) for j in used}
    ridges = {}
    for c in sorted(keep):
        cyc = topo.cells[c]
        for a, b in zip(cyc, cyc[1:] + cyc[:1]):
            ridges.setdefault(frozenset((a, b)), []).append(c)
    return P, ridges


def bad_cells(P, ridges):
    """cells at a ridge of at most 8 pixels or at a junction angle of at most 25 degrees (small safety margins)"""
    bad, nbr = set(), {}
    for r, cs in ridges.items():
        a, b = tuple(r)
        if math.hypot(P[a][0] - P[b][0], P[a][1] - P[b][1]) <= 8.5:
            bad |= set(cs)
        nbr.setdefault(a, []).append((b, cs))
        nbr.setdefault(b, []).append((a, cs))
    for j, ns in nbr.items():
        angs = sorted((math.atan2(P[n][1] - P[j][1], P[n][0] - P[j][0]), tuple(cs)) for n, cs in ns)
        for i in range(len(angs)):
            d = (angs[(i + 1) % len(angs)][0] - angs[i][0]) % (2 * math.pi)
            if len(angs) > 1 and d <= math.radians(26):
                bad |= set(angs[i][1]) | set(angs[(i + 1) % len(angs)][1])
    return bad


def make_tissue(case):
    """rasterised Voronoi tissue of the property's quantifier; returns (dict, None) or (None, reason)"""
    rng = np.random.default_rng(case["seed"])
    pts = lloyd(rng.random((case["sites"], 2)), case.get("lloyd", 1))
    topo = topo_from_points(pts)
    if topo.ncells() < 4:
        return None, "few_cells"
    keep = set(range(topo.ncells()))

    def area(c):
        Pz = topo.J[c]
        return 0.5 * abs(sum((Pz[i].real * Pz[(i + 1) % len(Pz)].imag - Pz[(i + 1) % len(Pz)].real * Pz[i].imag) for i in range(len(Pz))))
    S = case["ppc"] / math.sqrt(np.mean([area(topo.cells[c]) for c in keep]))
    def prune(keep):
        while True:
            P, ridges = geometry(topo, keep, S)
            comps = components(topo, keep - bad_cells(P, ridges))
            if not comps:
                return None, P, ridges
            new = max(comps, key=lambda c: (len(c), -min(c)))
            if new == keep:
                return keep, P, ridges
            keep = new
    keep, P, ridges = prune(keep)
    if keep is None:
        return None, "all_cells_at_short_ridges_or_small_angles"
    want = None
    if case.get("subset"):
        want = max(4, int(round(len(keep) * case["subset"])))
    elif case.get("subset_n"):
        want = case["subset_n"]
    if want is not None and want < len(keep):
        # grow an edge-connected sub-tissue of the wanted size inside the admissible cells
        adj = topo.adjacency()
        order = sorted(keep)
        sub = {order[int(rng.integers(len(order)))]}
        while len(sub) < want:
            front = sorted({y for x in sub for y in adj[x] if y in keep and y not in sub})
            if not front:
                break
            sub.add(front[int(rng.integers(len(front)))])
        keep, P, ridges = prune(sub)
        if keep is None:
            return None, "all_cells_at_short_ridges_or_small_angles"
    if not 4 <= len(keep) <= 60:
        return None, "cell_count_outside_4_60"
    keep = sorted(keep)
    minx = min(p[0] for p in P.values())
    miny = min(p[1] for p in P.values())
    m = 3
    P = {j: (p[0] - minx + m, p[1] - miny + m) for j, p in P.items()}
    W = max(p[0] for p in P.values()) + m + 1
    H = max(p[1] for p in P.values()) + m + 1
    img = np.zeros((H, W), dtype=np.uint8)
    for r in ridges:
        a, b = sorted(r)
        for x, y in bresenham(P[a][0], P[a][1], P[b][0], P[b][1]):
            img[y, x] = 1
    img, nfill = fill_small_holes(img, 6)
    if case.get("thin", True):
        img = thin(img)
    orc = py_raster(img)
    if orc["n"] != len(keep):
        return None, "enclosed_regions_differ_from_cells"
    lab = orc["lab"]
    cell_region = {}
    for c in keep:
        s = topo.sites[c]
        x, y = int(round(s.real * S)) - minx + m, int(round(s.imag * S)) - miny + m
        lbl = int(lab[y, x]) if 0 <= y < H and 0 <= x < W else 0
        if lbl <= 0 or lbl > orc["n"] or lbl in cell_region.values():
            return None, "site_not_inside_its_region"
        cell_region[c] = lbl
    jcells = {}
    for c in keep:
        for j in topo.cells[c]:
            jcells.setdefault(j, set()).add(c)
    border = sorted({cell_region[c] for r, cs in ridges.items() if len(cs) == 1 for c in cs})
    pair = lambda cs: tuple(sorted(cell_region[c] for c in cs))
    adj = sorted({pair(cs) for r, cs in ridges.items() if len(cs) == 2})
    internal = sorted({pair(cs) for r, cs in ridges.items() if len(cs) == 2 and any(len(jcells[j]) >= 3 for j in r)})
    return {"img": img, "oracle": orc, "n": len(keep), "border": border, "adj": adj, "internal": internal,
            "njunc3": sum(1 for s in jcells.values() if len(s) >= 3), "filled": nfill,
            "mean_region_px": float(np.mean(orc["sizes"]))}, None


# ------------------------------------------------------------------------------------------------ four-fold tissues
X_PIXEL = [[1, 0, 1], [0, 1, 0], [1, 0, 1]]


def quad_topo(rng, m, n, jitter, theta, offs):
    """m rows of quadrilateral cells on a jittered unit lattice turned by theta.  Row r has its cross walls at j + offs[r]
    (offs[r] in {0, 0.5}; a shifted row has one cell less); the line between two rows carries a node wherever a wall of
    either row ends: walls of both rows at the same place give a junction of four cells (four arms), a wall of one row only
    a junction of three cells (a straight line with one arm)"""
    walls = [[j + offs[r] for j in range(n + 1 - (1 if offs[r] else 0))] for r in range(m)]
    lines = []
    for i in range(m + 1):
        xs = set()
        if i > 0:
            xs |= set(walls[i - 1])
        if i < m:
            xs |= set(walls[i])
        lines.append(sorted(xs))
    node, J = {}, []
    rot = complex(math.cos(theta), math.sin(theta))
    for i in range(m + 1):
        for x in lines[i]:
            node[(i, round(2 * x))] = len(J)
            J.append((complex(x, i) + jitter * complex(rng.uniform(-1, 1), rng.uniform(-1, 1))) * rot)
    cells, sites = [], []
    for r in range(m):
        for a, b in zip(walls[r], walls[r][1:]):
            cyc = ([node[(r, round(2 * x))] for x in lines[r] if a <= x <= b]
                   + [node[(r + 1, round(2 * x))] for x in reversed(lines[r + 1]) if a <= x <= b])
            cells.append(cyc)
            sites.append(sum(J[k] for k in cyc) / len(cyc))
    return gen.Topo(J, cells, sites)


def contact_support(img, lab, n):
    """for every pair of regions (n + 1 = the outside): the number of skeleton pixels whose 3x3 neighbourhood meets both"""
    support = collections.Counter()
    rs, cs = np.nonzero(img)
    for r, c in zip(rs, cs):
        near = sorted(x for x in set(np.unique(lab[max(r - 1, 0):r + 2, max(c - 1, 0):c + 2]).tolist()) if 0 < x <= n + 1)
        for i in range(len(near)):
            for j in range(i + 1, len(near)):
                support[(near[i], near[j])] += 1
    return support


def make_quad_tissue(case):
    """rasterised tissue of quadrilateral cells whose interior junctions are four-fold: a single minimal junction pixel with
    four diagonal arms (an X crossing); rows may be shifted against each other (three-fold junctions on a straight line) and
    the tissue may be an edge-connected part of the lattice.  Same result as make_tissue.

    Two regions opposite each other at an X crossing touch in that one pixel only: they have no common boundary *line*.
    `py_raster` (adjacent = both in the 3x3 neighbourhood of one skeleton pixel) lists them; the oracle returned here is
    py_raster's with the pairs that are seen together from exactly one skeleton pixel removed (images with a pair seen from 2..4
    pixels are rejected as ambiguous; genuine ridges are longer than 8 pixels).  `oracle_raw` is py_raster's own answer."""
    rng = np.random.default_rng(case["seed"])
    m, n = case["rows"], case["cols"]
    offs = case.get("offs") or [0] * m
    topo = quad_topo(rng, m, n, case["jitter"], math.radians(45 + case.get("tilt", 0)), offs)
    keep = set(range(topo.ncells()))
    if case.get("keep_n") and case["keep_n"] < len(keep):
        # grow an edge-connected sub-tissue of the wanted size
        adj = topo.adjacency()
        sub = {int(rng.integers(topo.ncells()))}
        while len(sub) < case["keep_n"]:
            front = sorted({y for x in sub for y in adj[x] if y not in sub})
            if not front:
                break
            sub.add(front[int(rng.integers(len(front)))])
        keep = sub
    if not 4 <= len(keep) <= 60:
        return None, "cell_count_outside_4_60"
    S = case["ppc"]
    P, ridges = geometry(topo, keep, S)
    if bad_cells(P, ridges):
        return None, "quad_short_ridge_or_small_angle"
    arms, outer = collections.Counter(), collections.Counter()
    for r, cs in ridges.items():
        for j in r:
            arms[j] += 1
            outer[j] += len(cs) == 1
    if any(k > 2 for k in outer.values()):
        return None, "quad_cells_touching_in_a_point_across_the_outside"
    keep = sorted(keep)
    minx = min(p[0] for p in P.values())
    miny = min(p[1] for p in P.values())
    mg = 3
    P = {j: (p[0] - minx + mg, p[1] - miny + mg) for j, p in P.items()}
    W = max(p[0] for p in P.values()) + mg + 1
    H = max(p[1] for p in P.values()) + mg + 1
    img = np.zeros((H, W), dtype=np.uint8)
    for r in ridges:
        a, b = sorted(r)
        for x, y in bresenham(P[a][0], P[a][1], P[b][0], P[b][1]):
            img[y, x] = 1
    img, nfill = fill_small_holes(img, 6)
    img = thin(img)
    raw = py_raster(img)
    if raw["n"] != len(keep):
        return None, "enclosed_regions_differ_from_cells"
    lab = raw["lab"]
    cell_region = {}
    for c in keep:
        s = topo.sites[c]
        x, y = int(round(s.real * S)) - minx + mg, int(round(s.imag * S)) - miny + mg
        lbl = int(lab[y, x]) if 0 <= y < H and 0 <= x < W else 0
        if lbl <= 0 or lbl > raw["n"] or lbl in cell_region.values():
            return None, "site_not_inside_its_region"
        cell_region[c] = lbl
    nx = 0
    for j, k in arms.items():
        if k == 4:
            x, y = P[j]
            if img[y - 1:y + 2, x - 1:x + 2].tolist() != X_PIXEL:
                return None, "quad_four_armed_junction_is_not_a_single_x_pixel"
            nx += 1
    support = contact_support(img, lab, raw["n"])
    if any(2 <= k <= 4 for k in support.values()):
        return None, "quad_contact_of_2_to_4_pixels"
    point = {p for p, k in support.items() if k == 1}
    orc = dict(raw, adj=[p for p in raw["adj"] if p not in point], internal=[p for p in raw["internal"] if p not in point],
               border=[b for b in raw["border"] if (b, raw["n"] + 1) not in point])
    jcells = {}
    for c in keep:
        for j in topo.cells[c]:
            jcells.setdefault(j, set()).add(c)
    border = sorted({cell_region[c] for r, cs in ridges.items() if len(cs) == 1 for c in cs})
    pair = lambda cs: tuple(sorted(cell_region[c] for c in cs))
    adj = sorted({pair(cs) for r, cs in ridges.items() if len(cs) == 2})
    internal = sorted({pair(cs) for r, cs in ridges.items() if len(cs) == 2 and any(len(jcells[j]) >= 3 for j in r)})
    return {"img": img, "oracle": orc, "oracle_raw": raw, "n": len(keep), "border": border, "adj": adj, "internal": internal,
            "njunc3": sum(1 for s in jcells.values() if len(s) >= 3), "filled": nfill,
            "mean_region_px": float(np.mean(raw["sizes"])),
            "x_pixels": nx, "njunc4": sum(1 for s in jcells.values() if len(s) >= 4), "point_contacts": len(point)}, None


# ------------------------------------------------------------------------------------------------ files
def to_file(img, path, frame):
    """0/1 array -> 8-bit TIFF, skeleton white; one extra row/column all round (black, or the white frame of the shipped
    file) which the parser crops with [1:-1, 1:-1]"""
    a = np.zeros((img.shape[0] + 2, img.shape[1] + 2), dtype=np.uint8)
    a[1:-1, 1:-1] = (img > 0) * 255
    if frame:
        a[0, :] = 255
        a[-1, :] = 255
        a[:, 0] = 255
        a[:, -1] = 255
    Image.fromarray(a, mode="L").save(path)


def variant_image(base, var):
    """apply a symmetry of the square and a padding (top, bottom, left, right)"""
    img = np.ascontiguousarray(SYMS[var["sym"]](base))
    t, b, l, r = var["pad"]
    return np.pad(img, ((t, b), (l, r)))


def d16_predicate(contours):
    """signature of finding D16, a predicate on the contour lists: the mesh edge created last by the first loop joins two
    artefact candidates (three mesh edges, two cells, not an end of an external mesh edge)"""
    key, cells_of, seen, order = {}, collections.defaultdict(set), set(), []
    for ci, c in enumerate(contours):
        ids = []
        for p in c:
            p = (int(p[0]), int(p[1]))
            if p not in key:
                key[p] = len(key)
            ids.append(key[p])
            cells_of[key[p]].add(ci)
        for a, b in zip(ids, ids[1:] + ids[:1]):
            if (a, b) not in seen and (b, a) not in seen:
                seen.add((a, b))
                order.append((a, b))
    if not order:
        return False
    deg = collections.Counter()
    ext = set()
    for a, b in order:
        deg[a] += 1
        deg[b] += 1
        if len(cells_of[a]) == 1 or len(cells_of[b]) == 1:
            ext.update((a, b))
    cand = lambda v: deg[v] == 3 and len(cells_of[v]) == 2 and v not in ext
    return cand(order[-1][0]) and cand(order[-1][1])


# ------------------------------------------------------------------------------------------------ the real code
def quiet_unraisable(fn, *a, **k):
    """Cell.__del__ raises inside the interpreter's finaliser on some out-of-domain inputs; CPython prints and ignores"""
    old = sys.unraisablehook
    sys.unraisablehook = lambda *_: None
    try:
        return impl.quiet(fn, *a, **k)
    finally:
        sys.unraisablehook = old


def parse(path, mirror, snapshot=False):
    """Skeleton(path).create_lattice() on the real code; returns (skeleton, contour lists as read, observation)"""
    sk = quiet_unraisable(fs.skeleton.Skeleton, path, mirror_y=mirror)
    if any(np.ndim(c) != 2 for c in sk.contours):
        return sk, None, {"error": "shortContour"}
    conts = [[[int(p[0]), int(p[1])] for p in c] for c in sk.contours]     # before create_lattice mirrors them in place
    snap = {}
    if snapshot:
        orig = sk.get_artifacts

        def hook():
            if "mesh" in snap:          # a later create_lattice() on the same reader: the snapshot belongs to the first one
                return orig()
            snap["mesh"] = mesh_json(sk.vertices, sk.edges, sk.cells)
            snap["border"] = [int(k) for k, c in sk.cells.items() if c.is_border]
            snap["external"] = [int(k) for k, e in sk.edges.items() if e.external]
            return orig()
        sk.get_artifacts = hook
    try:
        v, e, c = quiet_unraisable(sk.create_lattice)
    except Exception as ex:   # noqa: BLE001
        return sk, conts, {"error": type(ex).__name__, "message": str(ex)[:80], "snap": snap}
    return sk, conts, {"error": None, "dicts": (v, e, c), "snap": snap,
                       "border": [int(k) for k, cl in c.items() if cl.is_border],
                       "external": [int(k) for k, ed in e.items() if ed.external],
                       "bigEdges": [[int(x) for x in b] for b in sk.all_big_edges]}


def point_in_polygon(px, py, poly):
    inside = False
    n = len(poly)
    for i in range(n):
        x0, y0 = poly[i]
        x1, y1 = poly[(i + 1) % n]
        if (y0 > py) != (y1 > py):
            if px < x0 + (py - y0) * (x1 - x0) / (y1 - y0):
                inside = not inside
    return inside


def norm_mesh(m):
    return ([[r[0], r[1], float(unrat(r[2])), float(unrat(r[3])), r[4], r[5]] for r in m["v"]], m["e"], m["c"])


# ------------------------------------------------------------------------------------------------ S: one variant
class Run:
    def __init__(self, ck, tmp):
        self.ck, self.tmp = ck, tmp
        self.reqs, self.pending, self.keep = [], [], []
        self.nfile = 0

    def path(self):
        self.nfile += 1
        return os.path.join(self.tmp, f"img{self.nfile}.tif")

    def lean_consistent(self, dicts, case, label):
        if len(dicts[0]) <= LEAN_CONSISTENT_MAX:
            self.reqs.append({"op": "consistent", "mesh": mesh_json(*dicts)})
            self.pending.append(("cons", case, label))
            self.ck.count("lean_consistent_evaluations")
        else:
            self.ck.count("lean_consistent_skipped_large_mesh")

    def k_request(self, case, conts, mirror, obs):
        npx = sum(len(c) for c in conts)
        if npx > LEAN_MODEL_MAX:
            self.ck.count("K_skipped_too_large_for_interpreter")
            return
        rec = {"error": obs["error"]}
        if obs["error"] is None:
            rec.update(mesh=mesh_json(*obs["dicts"]), border=obs["border"], external=obs["external"], bigEdges=obs["bigEdges"])
        rec["snap"] = obs.get("snap") or {}
        self.reqs.append({"op": "c15_lattice", "contours": conts, "mirror": bool(mirror), "check": npx <= LEAN_CONSISTENT_MAX})
        self.pending.append(("lattice", case, rec))
        self.ck.count("K_lattice_comparisons")
        self.ck.count("K_lattice_comparisons_" + case["type"])

    def variant(self, case, base, base_lab, n, var, expect, want_k):
        """run the pipeline on one variant; returns the observation expressed in base region numbers (or None)"""
        ck = self.ck
        vcase = dict(case, variant=var)
        img = variant_image(base, var)
        lab = variant_image(base_lab, var)           # the same map applied to the base labels: region numbers carry over
        lab = np.where((lab == 0) & (img == 0), n + 1, lab)    # padding belongs to the outside
        p = self.path()
        to_file(img, p, var["frame"])
        sk, conts, obs = parse(p, var["mirror"], snapshot=want_k)
        if conts is None:
            ck.fail("the image is parsed", "a contour with a single point", vcase)
            return None
        if want_k:
            self.k_request(vcase, conts, var["mirror"], obs)
        if obs["error"] is not None:
            sig = SIG_D16 if (obs["error"] == "KeyError" and d16_predicate(conts)) else None
            ck.fail("parsing completes", f"create_lattice raised {obs['error']}: {obs.get('message')}", vcase, signature=sig)
            return None
        v, e, c = obs["dicts"]
        self.keep.append((sk, v, e, c))
        ck.count("contours", len(conts))
        if len(conts) != n:
            ck.count("variants_where_contours_differ_from_regions")
        if any(len({tuple(q) for q in ct}) != len(ct) for ct in conts):
            ck.count("variants_with_a_contour_revisiting_a_pixel")
        bad = py_consistent(v, e, c)
        if bad:
            ck.fail("mesh consistent after create_lattice", "; ".join(bad[:3]), vcase)
        self.lean_consistent((v, e, c), vcase, "create_lattice")
        border_cells = {int(k) for k, cl in c.items() if cl.is_border}
        try:
            v, e, c, _ = quiet_unraisable(ve.generate_mesh, v, e, c, ne=var["ne"])
        except Exception as ex:   # noqa: BLE001
            ck.fail("resampling completes", f"generate_mesh(ne={var['ne']}) raised {type(ex).__name__}: {str(ex)[:80]}", vcase)
            return None
        bad = py_consistent(v, e, c)
        if bad:
            ck.fail("mesh consistent after generate_mesh", "; ".join(bad[:3]), vcase)
        self.lean_consistent((v, e, c), vcase, "generate_mesh")
        try:
            fr = quiet_unraisable(fs.frames.Frame, 0, v, e, c, time=0)
        except Exception as ex:   # noqa: BLE001
            ck.fail("the mesh supports frame construction", f"Frame raised {type(ex).__name__}: {str(ex)[:80]}", vcase)
            return None
        self.keep.append((fr, v, e, c))
        bad = py_consistent(v, e, c)
        if bad:
            ck.fail("mesh consistent after Frame construction", "; ".join(bad[:3]), vcase)
        # ---- cells <-> regions: the innermost pixel of every region lies in exactly one cell polygon
        dist = ndi.distance_transform_cdt(img == 0, metric="chessboard")
        reps = ndi.maximum_position(dist, lab, index=list(range(1, n + 1))) if n else []
        max_y = getattr(sk, "max_y", None)
        polys = {}
        for k, cl in c.items():
            polys[int(k)] = [(float(vx.x), float(vx.y)) for vx in cl.vertices]
        cell_of_region, region_of_cell = {}, {}
        okmap = True
        for i, (r, cc) in enumerate(reps, start=1):
            px, py = float(cc), float(r)
            if var["mirror"]:
                py = max_y - py
            inside = [k for k, poly in polys.items() if len(poly) >= 3 and point_in_polygon(px, py, poly)]
            if len(inside) != 1:
                ck.fail("exactly one cell per enclosed region",
                        f"region {i} (innermost pixel row {r}, col {cc}) lies in the cells {inside}; {len(c)} cells, {n} regions", vcase)
                okmap = False
                break
            cell_of_region[i] = inside[0]
            region_of_cell[inside[0]] = i
        if okmap and (len(c) != n or len(region_of_cell) != n):
            ck.fail("exactly one cell per enclosed region", f"{len(c)} cells, {n} enclosed regions, {len(region_of_cell)} matched", vcase)
            okmap = False
        if not okmap:
            return None
        got_border = sorted(region_of_cell[k] for k in border_cells if k in region_of_cell)
        got_border_now = sorted(region_of_cell[int(k)] for k, cl in c.items() if cl.is_border)
        pairs = []
        for be in fr.internal_big_edges:
            oc = sorted(int(x) for x in be.own_cells)
            pairs.append(tuple(sorted(region_of_cell.get(x, -x - 1) for x in oc)))
        pairs.sort()
        allpairs = sorted({tuple(sorted(region_of_cell.get(int(x), -1) for x in be.own_cells))
                           for be in fr.big_edges.values() if len(be.own_cells) == 2})
        result = {"cells": len(c), "border": got_border_now, "internal": pairs, "adjacent": allpairs,
                  "junction_vertices": sum(1 for x in v.values() if len(x.ownCells) >= 3),
                  "branch_vertices": sum(1 for x in v.values() if len(x.ownEdges) >= 3)}
        if got_border != got_border_now:
            ck.fail("border flags survive resampling", f"{got_border} after parsing, {got_border_now} on the frame", vcase)
        if got_border_now != expect["border"]:
            ck.fail("border cells are exactly the regions that touch the outside",
                    f"flagged {got_border_now}, touching the outside {expect['border']}", vcase)
        if expect.get("internal_required") is not None:
            # shipped in-vivo skeletons contain junction pixels one or two pixels apart (a "common boundary line" of one or two
            # pixels, merged into one junction by the parser): required are the pairs whose common boundary has at least four
            # skeleton pixels, allowed are all pairs of the raster oracle
            miss = [q for q in expect["internal_required"] if q not in pairs]
            extra = [q for q in pairs if q not in expect["internal"]] + [q for q, k in collections.Counter(pairs).items() if k > 1]
            if miss or extra:
                ck.fail("an internal interface for exactly the region pairs whose common boundary ends in an interior junction",
                        f"missing {miss[:4]}, unexpected or repeated {extra[:4]} (region numbers of the base image; pairs with a common boundary "
                        "of fewer than four pixels are optional)", vcase)
        elif pairs != expect["internal"]:
            miss = [q for q in expect["internal"] if q not in pairs]
            extra = [q for q in pairs if q not in expect["internal"]] + [q for q, k in collections.Counter(pairs).items() if k > 1]
            ck.fail("an internal interface for exactly the region pairs whose common boundary ends in an interior junction",
                    f"missing {miss[:4]}, unexpected or repeated {extra[:4]} (region numbers of the base image)", vcase)
        if expect.get("njunc3") is not None:
            ck.count("junction_count_equals_topology" if result["junction_vertices"] == expect["njunc3"] else "junction_count_differs_from_topology")
        if var.get("again"):
            # the same reader is asked for its lattice again (another ne needs a new lattice: generate_mesh consumes the first one)
            sig1 = sorted(len(cl.vertices) for cl in c.values())
            try:
                v2, e2, c2 = quiet_unraisable(sk.create_lattice)
                nb2 = sum(1 for cl in c2.values() if cl.is_border)
                bad2 = py_consistent(v2, e2, c2)
                ne2 = 3 + (var["ne"] - 3 + 2) % 7
                v2, e2, c2, _ = quiet_unraisable(ve.generate_mesh, v2, e2, c2, ne=ne2)
                fr2 = quiet_unraisable(fs.frames.Frame, 0, v2, e2, c2, time=0)
                self.keep.append((fr2, v2, e2, c2))
                if bad2:
                    ck.fail("mesh consistent after create_lattice", "second lattice of the same reader: " + "; ".join(bad2[:3]), vcase)
                elif len(c2) != n or nb2 != len(expect["border"]):
                    ck.fail("exactly one cell per enclosed region", f"second lattice of the same reader: {len(c2)} cells ({nb2} flagged as border), "
                            f"{n} enclosed regions ({len(expect['border'])} touching the outside)", vcase)
            except Exception as ex:   # noqa: BLE001
                ck.fail("parsing completes", f"second create_lattice / generate_mesh / Frame on the same reader raised {type(ex).__name__}: {str(ex)[:80]}", vcase)
            ck.count("second_lattice_of_the_same_reader")
        ck.count("variants_run")
        ck.count("sym_" + var["sym"])
        ck.count("ne_%d" % var["ne"])
        ck.count("mirror_y" if var["mirror"] else "no_mirror")
        ck.count("frame" if var["frame"] else "no_frame")
        return result


def metamorphic(ck, case, results):
    ref_var, ref = results[0]
    for var, res in results[1:]:
        for key in ("cells", "border", "adjacent", "internal", "junction_vertices"):
            if res[key] != ref[key]:
                ck.fail(f"{key} is the same for the transformed image",
                        f"{var}: {str(res[key])[:120]}  vs  {ref_var}: {str(ref[key])[:120]}", dict(case, variant=var))
    ck.count("metamorphic_comparisons", max(0, len(results) - 1))


def make_variants(rng, k, all_syms=False):
    """k variants; the first is the untransformed image"""
    out = [{"sym": "id", "mirror": False, "pad": [0, 0, 0, 0], "frame": False, "ne": int(rng.integers(3, 10))}]
    names = list(SYMS)
    for i in range(1, k):
        sym = names[i % 8] if all_syms else names[int(rng.integers(8))]
        pad = [int(x) for x in rng.integers(0, 5, size=4)] if rng.random() < 0.6 else [0, 0, 0, 0]
        out.append({"sym": sym, "mirror": bool(rng.integers(2)), "pad": pad, "frame": bool(rng.integers(2)),
                    "ne": int(rng.integers(3, 10))})
    for i, o in enumerate(out):
        o["again"] = bool(i % 2 == 0)
    return out


# ------------------------------------------------------------------------------------------------ cases
def tissue_case(run, case):
    ck = run.ck
    quad = case["type"] == "quad"
    if quad:
        ck.count("quad_cases_generated")
    t, why = (make_quad_tissue if quad else make_tissue)(case)
    if t is None:
        ck.count("rejected_" + why)
        return
    if not minimal(t["img"]):
        ck.count("rejected_not_minimal")
        return
    orc = t["oracle"]
    # the generating topology and the raster oracle must describe the same tissue; otherwise the case decides nothing
    if orc["border"] != t["border"] or orc["adj"] != t["adj"] or orc["internal"] != t["internal"]:
        ck.count("rejected_raster_oracle_differs_from_generating_topology")
        return
    ck.count("tissue_cells", t["n"])
    ck.count("tissues")
    ck.count("tissue_interior_junctions", t["njunc3"])
    ck.count("tissue_small_holes_filled", t["filled"])
    if quad:
        ck.count("quad_tissues")
        ck.count("quad_tissue_cells", t["n"])
        ck.count("quad_junctions_of_four_cells_single_x_pixel", t["njunc4"])
        ck.count("quad_junctions_of_three_cells", t["njunc3"] - t["njunc4"])
        ck.count("quad_four_armed_x_pixels", t["x_pixels"])
        ck.count("quad_internal_interfaces_expected", len(t["internal"]))
        ck.count("quad_point_contacts_removed_from_raster_adjacency", t["point_contacts"])
        ck.count("quad_tissues_with_shifted_rows" if any(case.get("offs") or []) else "quad_tissues_pure_lattice")
        if t["n"] < case["rows"] * case["cols"] - sum(1 for o in (case.get("offs") or []) if o):
            ck.count("quad_tissues_part_of_the_lattice")
    expect = {"border": t["border"], "internal": t["internal"], "njunc3": t["njunc3"]}
    results = []
    npx = int(t["img"].sum())
    for i, var in enumerate(case["variants"]):
        want_k = case.get("k", False) and i < case.get("k_variants", 1)
        res = run.variant(case, t["img"], orc["lab"], t["n"], var, expect, want_k)
        if res is not None:
            results.append((var, res))
    if len(results) > 1:
        metamorphic(ck, case, results)
    if case.get("lean_raster"):
        run.reqs.append({"op": "c15_raster", "img": t["img"].astype(int).tolist(), "rad": 2})
        run.pending.append(("raster", case, t.get("oracle_raw", orc)))     # Lean's twin is py_raster itself
    ck.case({k: v for k, v in case.items() if k != "variants"} | {"nvariants": len(case["variants"])},
            nontrivial=t["njunc3"] >= 1 and len(results) >= 1,
            sample=({"case": {k: v for k, v in case.items() if k != "variants"}, "image": list(t["img"].shape), "cells": t["n"],
                     "border_cells": len(t["border"]), "internal_interfaces": len(t["internal"]), "skeleton_pixels": npx,
                     "first_variants": case["variants"][:2]} if len(ck.samples) < 3 else None))


def shipped_case(run, case):
    ck = run.ck
    a = np.array(Image.open(os.path.join(REPO, case["path"])).convert("L"))
    base = (a[1:-1, 1:-1] > 0).astype(np.uint8)          # the file carries a white frame: the parser's crop removes it
    orc = py_raster(base)
    expect = {"border": orc["border"], "internal": orc["internal"], "njunc3": None}
    if case.get("short_boundaries_optional"):
        lab_ = orc["lab"]
        cnt = collections.Counter()
        rs_, cs_ = np.nonzero(base)
        for r_, c_ in zip(rs_, cs_):
            reg_ = sorted(x for x in set(np.unique(lab_[max(r_ - 1, 0):r_ + 2, max(c_ - 1, 0):c_ + 2]).tolist()) if 0 < x <= orc["n"])
            for i_ in range(len(reg_)):
                for j_ in range(i_ + 1, len(reg_)):
                    cnt[(reg_[i_], reg_[j_])] += 1
        expect["internal_required"] = [q for q in orc["internal"] if cnt[tuple(q)] >= 4]
        ck.count("in_vivo_pairs_with_short_common_boundary", len(orc["internal"]) - len(expect["internal_required"]))
    ck.count("shipped_regions", orc["n"])
    results = []
    for i, var in enumerate(case["variants"]):
        res = run.variant(case, base, orc["lab"], orc["n"], var, expect, case.get("k", False) and i == 0)
        if res is not None:
            results.append((var, res))
    if len(results) > 1:
        metamorphic(ck, case, results)
    ck.case({k: v for k, v in case.items() if k != "variants"} | {"nvariants": len(case["variants"])}, nontrivial=True,
            sample=({"case": case["path"], "regions": orc["n"], "internal_interfaces": orc["internal"]} if len(ck.samples) < 4 else None))


def fuzz_image(rng, kind):
    H, W = int(rng.integers(8, 18)), int(rng.integers(8, 18))
    if kind == "noise":
        img = (rng.random((H, W)) < rng.uniform(0.35, 0.6)).astype(np.uint8)
    else:
        img = np.zeros((H, W), dtype=np.uint8)
        for _ in range(int(rng.integers(3, 9))):
            x0, y0, x1, y1 = (int(rng.integers(1, W - 1)), int(rng.integers(1, H - 1)),
                              int(rng.integers(1, W - 1)), int(rng.integers(1, H - 1)))
            for x, y in bresenham(x0, y0, x1, y1):
                img[y, x] = 1
        img[1, 1:W - 1] = 1
        img[H - 2, 1:W - 1] = 1
        img[1:H - 1, 1] = 1
        img[1:H - 1, W - 2] = 1
    img[0, :] = 0
    img[-1, :] = 0
    img[:, 0] = 0
    img[:, -1] = 0
    return img


def image_case(run, case):
    """an explicit small image (rows of '0'/'1'), or a seeded random one: correspondence only — such images are outside
    the property's domain (thick lines, several components), except that a D16 witness is reported as the known finding"""
    ck = run.ck
    if "rows" in case:
        img = np.array([[int(ch) for ch in row] for row in case["rows"]], dtype=np.uint8)
    else:
        img = fuzz_image(np.random.default_rng(case["seed"]), case["kind"])
    p = run.path()
    to_file(img, p, False)
    try:
        sk, conts, obs = parse(p, case.get("mirror", False), snapshot=True)
    except Exception as ex:   # noqa: BLE001
        # the constructor itself fails (single-pixel components, empty area list): nothing to feed to the model
        ck.count("fuzz_constructor_raised_" + type(ex).__name__)
        return
    if conts is None:
        ck.count("fuzz_contour_with_one_point")
        return
    ck.count("fuzz_create_lattice_" + ("ok" if obs["error"] is None else obs["error"]))
    if obs["error"] is None:
        run.keep.append((sk,) + obs["dicts"])
    run.k_request(case, conts, case.get("mirror", False), obs)
    if case.get("expect_d16"):
        if obs["error"] == "KeyError" and d16_predicate(conts):
            ck.fail("parsing completes", f"create_lattice raised KeyError: {obs.get('message')} (the loop variable `e` of the "
                    "external-flag loop keeps the last mesh edge alive; do_t3_transition deletes it from the dict, its id stays in ownEdges)",
                    case, signature=SIG_D16)
        else:
            ck.count("d16_witness_no_longer_raises")
    if "rows" in case or case.get("lean_raster"):
        run.reqs.append({"op": "c15_raster", "img": img.astype(int).tolist(), "rad": 2})
        run.pending.append(("raster", case, py_raster(img)))
    ck.case(case, nontrivial=obs["error"] is None)


def gen_cases(ck):
    rng = ck.rng
    quick = ck.tier == "quick"
    cases = []
    # the shipped skeleton
    nv = 6 if quick else 32
    vs = make_variants(rng, nv, all_syms=not quick)
    if not quick:
        vs = vs[:8] + [dict(v, mirror=True) for v in vs[:8]] + vs[16:]
    cases.append({"type": "shipped", "seed": 0, "path": "tests/data/test_nonzero.tif", "variants": vs, "k": True})
    # the shipped in-vivo skeletons (junctions where four cells meet occur in some of them): oracle only
    for k_ in ([int(ck.seed) % 5, (int(ck.seed) + 1) % 5] if quick else range(5)):
        cases.append({"type": "shipped", "seed": 0, "path": f"examples/data/in_vivo/t_{k_}.tif",
                      "variants": [{"sym": "id", "mirror": False, "pad": [0, 0, 0, 0], "frame": False, "ne": int(rng.integers(3, 10)), "again": True},
                                   {"sym": list(SYMS)[1 + int(rng.integers(7))], "mirror": bool(rng.integers(2)), "pad": [0, 0, 0, 0], "frame": False,
                                    "ne": int(rng.integers(3, 10)), "again": False}],
                      "k": False, "short_boundaries_optional": True})
    # rasterised tissues: small ones also go through the model (K), all through the oracle (S)
    n_small, n_big = (8, 10) if quick else (20, 24)
    for i in range(n_small):
        cases.append({"type": "tissue", "seed": int(rng.integers(1 << 30)), "sites": int(rng.integers(24, 46)),
                      "ppc": int(rng.integers(35, 46)), "lloyd": int(rng.integers(1, 4)), "subset_n": int(rng.integers(6, 12)),
                      "variants": make_variants(rng, 4 if quick else 8), "k": True, "k_variants": 2,
                      "lean_raster": i < (1 if quick else 3)})
    for i in range(n_big):
        cases.append({"type": "tissue", "seed": int(rng.integers(1 << 30)), "sites": int(rng.integers(20, 110)),
                      "ppc": int(rng.integers(35, 91)), "lloyd": int(rng.integers(0, 4)), "subset": [None, None, 0.6][i % 3],
                      "variants": make_variants(rng, 5 if quick else 12, all_syms=not quick), "k": False})
    # small random images: correspondence on every clean-up branch
    for i in range(120 if quick else 900):
        cases.append({"type": "image", "seed": int(rng.integers(1 << 30)), "kind": "noise" if i % 3 == 0 else "lines",
                      "mirror": bool(i % 2), "lean_raster": i % 30 == 0})
    # tissues of quadrilateral cells: four-fold interior junctions (drawn last so that the cases above are those of earlier runs)
    cases += quad_cases(rng, quick)
    return cases


def quad_cases(rng, quick):
    """quick: 5 small ones (all through the model); thorough: 8 small ones through the model and 10 larger ones.
    Of every four: two full lattices, one with shifted rows (three-fold and four-fold junctions), one part of a lattice"""
    out = []
    n_small, n_big = (5, 0) if quick else (8, 10)
    for i in range(n_small + n_big):
        small = i < n_small
        kind = ("full", "shifted", "full", "part")[i % 4]
        if small:
            m, n = (2, 2) if i == 0 else (int(rng.integers(2, 4)), int(rng.integers(2, 5)))
            ppc = int(rng.integers(35, 46))
        else:
            m, n = int(rng.integers(3, 8)), int(rng.integers(3, 8))
            ppc = int(rng.integers(35, 91 if m * n <= 25 else 56))
        case = {"type": "quad", "seed": int(rng.integers(1 << 30)), "rows": m, "cols": n, "ppc": ppc,
                "jitter": round(float(rng.uniform(0.02, 0.14)), 3), "tilt": round(float(rng.uniform(-9, 9)), 2)}
        if kind == "shifted":
            m = case["rows"] = max(m, 3)
            case["cols"] = max(n, 3)
            offs = [0.5 * int(rng.integers(2)) for _ in range(m)]
            j = int(rng.integers(m - 1))
            offs[j + 1] = offs[j]                      # at least one line of four-fold junctions
            k = (j + 2) % m if m > 2 else 0
            offs[k] = 0.5 - offs[j] if k not in (j, j + 1) else offs[k]
            case["offs"] = offs
        if kind == "part":
            m = case["rows"] = max(m, 3)
            n = case["cols"] = max(n, 3)
            case["keep_n"] = int(rng.integers(max(4, (m * n) // 2), m * n))
        case.update(variants=make_variants(rng, (4 if quick else 8) if small else 12, all_syms=not small),
                    k=small, k_variants=2 if i < 2 else 1, lean_raster=(i == 0))
        out.append(case)
    return out


# ------------------------------------------------------------------------------------------------ comparison
def compare_lattice(ck, case, rec, resp):
    if resp.get("idReused"):
        ck.count("K_skipped_vertex_id_reused")
        return
    if resp["error"] == "shortContour":
        ck.count("K_skipped_short_contour")
        return
    if rec["error"] != resp["error"]:
        ck.disagree("create_lattice.error", f"model {resp['error']} impl {rec['error']}", case)
        return
    snap = rec.get("snap") or {}
    raw = resp.get("raw")
    if snap and raw and resp["error"] is None and resp.get("triangleDeleted") == []:
        # the snapshot taken on entering get_artifacts; the inner-triangle loop deleted nothing, so this is the state after
        # the first loop and the flag loops
        a, b = norm_mesh(snap["mesh"]), norm_mesh(raw["mesh"])
        for nm, x, y in zip(("vertices", "edges", "cells"), a, b):
            if x != y:
                d = [(p, q) for p, q in zip(x, y) if p != q][:2]
                ck.disagree("first loop: " + nm, f"sizes impl {len(x)} model {len(y)}; first differences {d}", case)
        if snap["border"] != raw["border"]:
            ck.disagree("is_border flags", f"impl {snap['border'][:10]} model {raw['border'][:10]}", case)
        if snap["external"] != raw["external"]:
            ck.disagree("external flags", f"impl {len(snap['external'])} model {len(raw['external'])}", case)
        ck.count("K_first_loop_snapshots_compared")
    if resp["error"] is not None:
        ck.count("K_agreed_on_" + resp["error"])
        return
    a, b = norm_mesh(rec["mesh"]), norm_mesh(resp["mesh"])
    for nm, x, y in zip(("vertices", "edges", "cells"), a, b):
        if x != y:
            d = [(p, q) for p, q in zip(x, y) if p != q][:2]
            ck.disagree("create_lattice." + nm, f"sizes impl {len(x)} model {len(y)}; first differences {d}", case)
            return
    for key in ("border", "external", "bigEdges"):
        if rec[key] != resp[key]:
            ck.disagree("create_lattice." + key, f"impl {str(rec[key])[:100]} model {str(resp[key])[:100]}", case)
            return
    ck.count("K_artefact_groups", len(resp["artifacts"]))
    ck.count("K_vertices_deleted_by_inner_triangle_loop", len(resp["triangleDeleted"]))
    ck.count("K_isolated_cells_removed", len(resp["isolated"]))
    if resp["d16"]:
        ck.count("K_d16_predicate_true_but_no_exception")


def run(ck):
    ck.level = "other"
    ck.explanation = (
        "Proved in Lean for all contour lists (Props/C15.lean): the first loop of Skeleton.create_lattice — one vertex per "
        "distinct pixel position with ids 0,1,2,… in first-occurrence order, no mesh edge created twice in either direction, "
        "every step of every contour (closing step included) joined by a stored mesh edge, every cell's cycle is its contour "
        "mapped through the interning, one cell per contour, and (contours being cycles of >= 2 distinct pixels) the resulting "
        "dictionaries are a consistent mesh, also with mirror_y. Checked per run, not proved: that the executable model "
        "(including the inner-triangle loop, get_artifacts, the grouping loop, do_t3_transition and the isolated-cell removal "
        "with CPython's reference-count and list-mutation semantics) equals the real create_lattice on OpenCV's actual contour "
        "lists (exact comparison of all three dictionaries, flags and exception kinds); that the whole pipeline Skeleton -> "
        "create_lattice -> generate_mesh -> Frame yields one cell per enclosed region, the right border flags and internal "
        "interfaces (against a pixel-level raster oracle and the generating topology: Voronoi tissues with three-fold junctions and "
        "lattices of quadrilateral cells with four-fold junctions), consistent meshes at every stage, "
        "and the same answer under the 8 symmetries of the square, padding, frame and mirror_y. Trusted: cv2.findContours "
        "(that border following yields one hole contour per enclosed region is a digital-topology statement about OpenCV and "
        "is not proved), PIL, scipy.ndimage (the raster oracle is cross-checked against its Lean twin on small images), the "
        "rasteriser and the harness.")
    ck.rule = ("rasterised Voronoi tissues (Lloyd-relaxed random sites; cells at a ridge <= 8 px or a junction angle <= 25 deg are "
               "dropped, largest edge-connected remainder of 4..60 cells; 35..90 pixels per cell (sqrt of mean cell area); Bresenham "
               "ridges, holes <= 6 px filled, thinned until no (8,4)-simple pixel is left; rejected unless the enclosed regions are the "
               "cells and the raster oracle agrees with the generating topology); tissues of quadrilateral cells (type quad: jittered "
               "lattice of 2..7 x 2..7 cells, jitter 0.02..0.14 of the cell side, turned by 45 +- 9 degrees, 35..90 pixels per cell side, "
               "optionally rows shifted by half a cell or an edge-connected part of the lattice; same rasteriser; rejected unless every "
               "four-armed junction is one pixel with four diagonal arms, no two regions are seen together from 2..4 skeleton pixels, "
               "and the raster oracle without single-pixel contacts agrees with the generating topology); "
               "and tests/data/test_nonzero.tif, each under a random "
               "choice (thorough: all) of the 8 symmetries of the square, paddings 0..4 px per side, with/without the one-pixel white "
               "frame, mirror_y on/off, ne in 3..9; plus small random line drawings / noise images for the correspondence only. "
               "Non-trivial = a tissue with at least one interior junction on which at least one variant ran; distinct = generator parameters")
    ck.assumptions = ["cv2.findContours / PIL / scipy.ndimage are trusted kernels (contours are the model's input)",
                      "np.mean of three integer pixel coordinates is the correctly rounded quotient (compared as floats exactly)",
                      "CPython reference counting: __del__ runs when the last reference goes (the model encodes which local variable keeps which object alive)",
                      "cell <-> region matching by point-in-polygon of the region's innermost pixel (cells of the domain are convex, ridges straight)",
                      "the model is interpreted: inputs with more than %d contour pixels are not sent to it (counted)" % LEAN_MODEL_MAX]
    # Cell.__del__ raises inside finalisers on some out-of-domain inputs (also when this process lets go of them later);
    # CPython prints and ignores that — keep it off the console for the whole run
    sys.unraisablehook = lambda *_: None
    tmp = tempfile.mkdtemp(prefix="c15_")
    run_ = Run(ck, tmp)
    try:
        if ck.replaying:
            c = dict(ck.replaying["case"])
            if "variant" in c:
                c["variants"] = [c.pop("variant")]
                c["k"] = True
            cases = [c]
        else:
            cases = ck.corpus_cases() + gen_cases(ck)
        for case in cases:
            fn = {"tissue": tissue_case, "quad": tissue_case, "shipped": shipped_case, "image": image_case}[case["type"]]
            ck.guard(case, fn, run_, case)
        resps = ck.driver(run_.reqs)
    finally:
        shutil.rmtree(tmp, ignore_errors=True)
    for (kind, case, rec), resp in zip(run_.pending, resps):
        if kind == "cons":
            if not resp["ok"]:
                ck.fail(f"mesh consistent after {rec}", f"failing clauses (Lean Mesh.Consistent on the dump): {resp['failing']}", case)
        elif kind == "lattice":
            compare_lattice(ck, case, rec, resp)
            if resp.get("raw") and "consistent" in resp["raw"]:
                ck.count("model_first_loop_mesh_consistent" if resp["raw"]["consistent"] else "model_first_loop_mesh_inconsistent")
        elif kind == "raster":
            if not resp["converged"]:
                ck.count("lean_raster_not_converged")
                continue
            got = {"n": resp["n"], "sizes": resp["sizes"], "border": resp["border"], "adj": [tuple(p) for p in resp["adj"]],
                   "triples": [tuple(p) for p in resp["triples"]], "internal": [tuple(p) for p in resp["internal"]]}
            want = {k: rec[k] for k in got}
            if got != want:
                ck.disagree("raster oracle (Lean vs scipy)", str({k: (got[k], want[k]) for k in got if got[k] != want[k]})[:300], case)
            ck.count("raster_oracles_compared")
