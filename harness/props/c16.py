"""C16 — angle-limit exclusion drops exactly the flagged interfaces and solves the rest.

K: ForceMatrix.deletes / big_edges_to_use of the real code vs. the Lean model (`FMInput.deletes`, `used`, square-root-free
   `cosLe` with cos(limit) as a rational; inputs with a pair within 1e-9 of the limit are rejected), and the re-alignment
   of the solution (`realign`) position by position.
S: flagged junctions recomputed from the closed-form tangents of all interfaces at the junction (margin 0.1 rad around the
   limit because of finding D2), excluded = both ends flagged, -1 exactly at excluded positions, the other positions against
   an independent solve of the restricted system, nothing excluded with the default limit.
"""
import itertools
import math
import numpy as np
import scipy.optimize as sco

import impl
import statics
from dump import mesh_json, rat, unrat

MARGIN = 0.1


def gen_cases(ck):
    cases = ck.corpus_cases()
    n = 30 if ck.tier == "quick" else 200
    for i in range(n):
        lim = [None, "pi", None][int(ck.rng.integers(3))] if ck.rng.random() < 0.25 else float(ck.rng.uniform(0.62, 1.0) * math.pi)
        cases.append({"type": "tissue", "seed": int(ck.rng.integers(1 << 30)), "tissue": ["random", "jitter", "hex", "quad"][int(ck.rng.integers(4))],
                      "sites": int(ck.rng.integers(14, 34)), "subset": [None, 0.7][int(ck.rng.integers(2))], "min_ridge": 0.005,
                      "mobius": bool(ck.rng.integers(4) != 0), "kmin": 1, "kmax": 8, "angle": float(ck.rng.uniform(0, 6.28)),
                      "scale": float(10.0 ** ck.rng.uniform(-1, 1)), "noise": float(ck.rng.choice([0.0, 0.02])),
                      "limit": lim, "rhs": ["static", "velocity"][int(ck.rng.integers(4) == 0)],
                      "method": [None, None, "lsq"][int(ck.rng.integers(3))], "fit": ["dlite", "taubinSVD"][int(ck.rng.integers(2))]})
    for i in range(2 if ck.tier == "quick" else 6):
        # straight-through junctions with exactly antiparallel pairs (brick lattice, two-point interfaces), default limit
        cases.append({"type": "lattice", "seed": int(ck.rng.integers(1 << 30)), "tissue": "brick", "nx": 3, "ny": 3, "kmin": 0, "kmax": 0,
                      "angle": [0.0, float(ck.rng.uniform(0, 6.28))][i % 2], "scale": 1.0, "limit": None, "rhs": "static", "method": None,
                      "fit": "dlite", "noise": 0.0})
    for i in range(6 if ck.tier == "quick" else 30):
        # perturbed square lattices: every inner junction has four interfaces, opposite ones nearly in line; limits just below pi
        # flag some junctions and not others, so that four-fold junctions lose one or two interfaces and keep the rest
        cases.append({"type": "lattice", "seed": int(ck.rng.integers(1 << 30)), "tissue": "square", "nx": int(ck.rng.integers(4, 7)), "ny": int(ck.rng.integers(4, 6)),
                      "kmin": 0, "kmax": 0, "angle": float(ck.rng.uniform(0, 6.28)), "scale": 1.0, "noise": float(ck.rng.choice([0.04, 0.08])),
                      "limit": float(ck.rng.uniform(0.9, 0.985) * math.pi), "rhs": "static", "method": [None, "lsq"][i % 2], "fit": "dlite"})
    for i in range(2 if ck.tier == "quick" else 8):
        # the boundary of "at least the limit": axis-parallel brick lattices have junctions that open by exactly pi (exact in
        # floating point and in the model), solved with angle_limit = pi
        cases.append({"type": "lattice", "seed": int(ck.rng.integers(1 << 30)), "tissue": "brick", "nx": 3 + i % 3, "ny": 3 + (i // 3) % 2, "kmin": 0, "kmax": 0,
                      "angle": 0.0, "scale": 1.0, "limit": "pi", "rhs": "static", "method": None, "fit": "dlite", "noise": 0.0, "exact": True})
    return cases


def setup(case):
    import forsys as fs
    rng = np.random.default_rng(case["seed"] + 7)
    probe = statics.build_static(case)
    if probe is None:
        return None
    nj = len(probe.topo.J)
    d0 = (rng.normal(size=nj) + 1j * rng.normal(size=nj)) * case.get("noise", 0.0)
    if case["rhs"] == "velocity":
        d1 = (rng.normal(size=nj) + 1j * rng.normal(size=nj)) * 0.01
        series = statics.build_series(case, 2, disp=[d0, d0 + d1])
        f_ = statics.make_forsys(series, times=[0.0, 1.0])
        if f_.mesh.mapping[0] is None:
            return None          # the generated frames are "too different" for the tracker: outside this property's inputs
    else:
        series = statics.build_series(case, 1, disp=[d0])
        series[0].frame = impl.make_frame(series[0].bm)
        series[0].forsys = fs.ForSys({0: series[0].frame})
    sc = series[0]
    sc.keep = series
    return sc


def limit_value(case):
    lim = case.get("limit")
    if lim is None:
        return None
    if lim == "pi":
        return math.pi
    return float(lim)


def true_dir_of(sc, v, ids):
    """closed-form direction at junction vertex v of the interface with vertex ids `ids` (first ridge from v)"""
    bm = sc.bm
    nxt = ids[1] if ids[0] == v else ids[-2]
    ja = bm.vid_phys[v][1]
    ph = bm.vid_phys[nxt]
    if ph[0] == "J":
        jb = ph[1]
        npts = 2 if len(ids) == 2 else 3
    else:
        jb = ph[2] if ph[1] == ja else ph[1]
        npts = 3
    return statics.true_direction(sc, ja, jb, npts)


def run_case(ck, case, reqs, pending):
    np.seterr(all="raise")
    sc = setup(case)
    if sc is None:
        ck.count("rejected_tissue"); return
    lim = limit_value(case)
    kw = {} if lim is None else {"angle_limit": lim}
    fit = case.get("fit", "dlite")
    try:
        impl.quiet(sc.forsys.build_force_matrix, when=0, circle_fit_method=fit, **kw)
    except Exception as ex:
        ck.fail("the restricted system can be assembled", f"build_force_matrix raises {type(ex).__name__}: {str(ex)[:100]}", case)
        ck.case(case); return
    fm, frame = sc.forsys.force_matrices[0], sc.frame
    cs = statics.centers(sc, fit)       # before any solve: a failing lmfit call leaves numpy's error state at 'ignore'
    obs = impl.observe_frame(frame)
    earr = obs["earr"]
    internal = [earr[i] for i in obs["internalIdx"]]
    used = [[int(x) for x in e] for e in fm.big_edges_to_use]
    deletes = sorted(int(x) for x in fm.deletes)
    ck.count("limit_default" if lim is None else ("limit_pi" if case.get("limit") == "pi" else "limit_explicit"))
    # ---------------- S: flagged junctions from closed-form tangents
    ends = sorted({e[0] for e in internal} | {e[-1] for e in internal})
    own = {v: [i for i, e in enumerate(earr) if v in e] for v in ends}
    near = False
    want_del = set()
    code_near = False
    def single_ridge(ids):
        ph = [sc.bm.vid_phys[x] for x in ids]
        if ph[0][0] != "J" or ph[-1][0] != "J":
            return False
        if not all(q[0] == "I" for q in ph[1:-1]):
            return False
        mids = {(q[1], q[2]) for q in ph[1:-1]}
        return len(mids) <= 1 and frozenset((ph[0][1], ph[-1][1])) in sc.topo.ridges
    well = {}
    for v in ends:
        # the closed-form direction exists only for interfaces that are one ridge (one arc / one line); external interfaces
        # running along several ridges have no single circle, the oracle leaves junctions touching them to K
        well[v] = all(single_ridge(earr[i]) for i in own[v])
        if not well[v]:
            continue
        dirs = [true_dir_of(sc, v, earr[i]) for i in own[v]]
        angs = [math.acos(max(-1.0, min(1.0, (a * b.conjugate()).real))) for a, b in itertools.combinations(dirs, 2)]
        amax = max(angs) if angs else 0.0
        if lim is not None:
            if abs(amax - lim) < (MARGIN if not case.get("exact") else 0.0) or (case.get("exact") and 0 < abs(amax - lim) < 1e-9):
                near = True
            if amax >= lim:
                want_del.add(v)
        # exact-vs-float branch safety for K: the code's own versors
        vs = [frame.big_edges[i].get_versor_from_vertex(v, fit_method=fit) for i in own[v]]
        for a, b in itertools.combinations(vs, 2):
            if lim is not None and abs(float(np.dot(a, b)) - math.cos(lim)) < 1e-9 and not (case.get("exact") and float(np.dot(a, b)) == math.cos(lim)):
                code_near = True
    if lim is None:
        if deletes or used != internal:
            ck.fail("with the default limit nothing is excluded", f"{len(deletes)} junctions flagged, {len(internal) - len(used)} interfaces dropped", case)
    elif not near:
        ck.count("junctions_with_closed_form_directions", sum(1 for v in ends if well[v]))
        ck.count("junctions_left_to_K_only", sum(1 for v in ends if not well[v]))
        if {v for v in deletes if well.get(v)} != want_del:
            ck.fail("a junction is flagged exactly when some pair of interface directions opens by at least the limit",
                    f"code-only {sorted({v for v in deletes if well.get(v)} - want_del)[:4]} truth-only {sorted(want_del - set(deletes))[:4]}", case)
    else:
        ck.count("oracle_skipped_angle_within_margin")
    excl_want = [e for e in internal if e[0] in fm.deletes and e[-1] in fm.deletes]
    if used != [e for e in internal if e not in excl_want]:
        ck.fail("an interface is excluded exactly when both of its end junctions are flagged; the rest keep their order",
                f"used {len(used)} internal {len(internal)} excluded-by-rule {len(excl_want)}", case)
        ck.case(case)
        return sc               # the restricted system is not the one the rule defines: nothing further to compare
    # ---------------- the restricted system itself: every junction's row pair holds a coefficient for exactly the used interfaces ending
    # there, and the junctions with a row pair are those (of three or more cells) where at least three used interfaces end
    A0 = np.array(fm.matrix, dtype=float)
    rowmap0 = {int(k): int(r) for k, r in fm.map_vid_to_row.items()}
    cov = impl.cells_of_vertex(frame.cells)
    ends_used = {}
    for col, e in enumerate(used):
        for v in {e[0], e[-1]}:
            ends_used.setdefault(v, set()).add(col)
    if A0.size and A0.shape[1] == len(used):
        for v, r in rowmap0.items():
            nz = {c for c in range(A0.shape[1]) if A0[r, c] != 0 or A0[r + 1, c] != 0}
            if nz != ends_used.get(v, set()):
                ck.fail("every other position holds the solution of the restricted system (each junction's equations contain exactly the "
                        "remaining interfaces ending there)", f"junction {v}: coefficients in columns {sorted(nz)}, used interfaces ending there {sorted(ends_used.get(v, set()))}", case)
                break
        want_rows = {v for v, cs in ends_used.items() if len(cs) >= 3 and len(cov.get(v, ())) >= 3}
        if set(rowmap0) != want_rows:
            ck.fail("every other position holds the solution of the restricted system (one pair of equations per junction with three or "
                    "more remaining interfaces)", f"missing {sorted(want_rows - set(rowmap0))[:4]} surplus {sorted(set(rowmap0) - want_rows)[:4]}", case)
        ck.count("restricted_system_shape_checked")
    # ---------------- solve
    skw = {}
    if case["rhs"] == "velocity":
        skw["b_matrix"] = "velocity"
    if case.get("method"):
        skw["method"] = case["method"]
        skw["initial_condition"] = [1.0 + 0.1 * (i % 3) for i in range(len(internal))]
    A = np.array(fm.matrix, dtype=float)
    ic_before = list(skw.get("initial_condition", []))
    try:
        impl.quiet(sc.forsys.solve_stress, when=0, **skw)
    except Exception as ex:
        if A.shape[0] == 0 or A.shape[1] == 0:
            ck.count("empty_restricted_system_raises_" + type(ex).__name__)
            ck.case(case, nontrivial=False)
            return sc
        ck.fail("the restricted system is solved", f"solve_stress raises {type(ex).__name__}: {str(ex)[:100]}", case)
        ck.case(case); return sc
    forces = frame.forces
    x = [forces[i] for i in range(len(forces))]
    rec = getattr(fm, "_verif", None)
    if ic_before and skw["initial_condition"] != ic_before:
        ck.fail("user-supplied initial conditions are honoured (not overwritten)", "solve_stress modified the caller's initial_condition list", case)
    if len(x) != len(internal):
        ck.fail("one reported value per internal interface, at its own position", f"{len(x)} values, {len(internal)} internal interfaces", case)
    else:
        for i, e in enumerate(internal):
            if (e in excl_want) != (x[i] == -1):
                ck.fail("excluded interfaces are reported as -1 at their own position (and only they)", f"position {i}: value {x[i]}, excluded={e in excl_want}", case)
                break
        kept = [x[i] for i, e in enumerate(internal) if e not in excl_want]
        if rec is not None and A.shape[1] > 0 and A.shape[0] > 0:
            z = rec["xres_raw"]
            if len(kept) != A.shape[1] or np.max(np.abs(np.array(kept) - z[:A.shape[1]])) > 0:
                ck.fail("every other position holds the solution of the restricted system", "kept positions differ from the solver output", case)
                ck.case(case)
                return sc
            # independent solve of the restricted augmented problem
            b0 = rec["b"][:A.shape[0]]
            n = A.shape[1]
            Mref = np.block([[A, np.ones((A.shape[0], 1))], [np.ones((1, n)), np.zeros((1, 1))]])
            bref = np.concatenate([b0, [float(n)]])
            zref, _ = sco.nnls(Mref, bref, maxiter=50 * (n + 1))
            sv = np.linalg.svd(Mref, compute_uv=False)
            # whatever the conditioning: the reported vector (with its multiplier) is a minimiser of the restricted augmented problem —
            # its objective is not above that of the independent solve (an exactly inverted square system has objective zero)
            if rec["path"] in ("nnls-fallback", "lsq") or (rec["path"] == "inv" and sv[-1] >= 1e-6 * sv[0]):
                zfull = np.asarray(z, dtype=float)[:n + 1]
                if len(zfull) == n + 1:
                    obj = float(np.sum((Mref @ zfull - bref) ** 2)); obj_ref = float(np.sum((Mref @ zref - bref) ** 2))
                    tol_obj = (1e-4 if rec["path"] == "lsq" else 1e-8) * (1.0 + float(bref @ bref))
                    if obj > obj_ref + tol_obj:
                        ck.fail("every other position holds the solution of the system restricted to the remaining interfaces",
                                f"objective of the reported vector in the restricted problem (mean of the {n} remaining tensions = 1): {obj:.6g}, "
                                f"independent solve {obj_ref:.6g} (path {rec['path']})", case)
                    ck.count("restricted_objective_checked")
            if Mref.shape[0] >= Mref.shape[1] and sv[-1] >= 1e-3 * sv[0] and rec["path"] in ("nnls-fallback", "lsq"):
                tol = (1e-6 if rec["path"] == "nnls-fallback" else 1e-3) / sv[-1] * (1 + np.max(np.abs(bref)))
                if np.max(np.abs(np.array(kept) - zref[:n])) > tol:
                    ck.fail("every other position holds the solution of the restricted system",
                            f"deviation {np.max(np.abs(np.array(kept) - zref[:n]))} from an independent solve (path {rec['path']})", case)
                ck.count("restricted_solution_checked")
    # ---------------- the same rule through the other entry point that assembles systems (get_system_velocity_per_frame builds
    # every frame's matrix with the limit it is given, default fit)
    if case["rhs"] == "velocity" and fit == "dlite" and not code_near:
        try:
            impl.quiet(sc.forsys.get_system_velocity_per_frame)
            fm_d = sc.forsys.force_matrices[0]
            if [[int(q) for q in e] for e in fm_d.big_edges_to_use] != internal or fm_d.deletes:
                ck.fail("with the default limit nothing is excluded", "after get_system_velocity_per_frame() the frame's system still excludes interfaces", case)
            if lim is not None:
                impl.quiet(sc.forsys.get_system_velocity_per_frame, angle_limit=lim)
                fm_l = sc.forsys.force_matrices[0]
                if [[int(q) for q in e] for e in fm_l.big_edges_to_use] != used or sorted(int(q) for q in fm_l.deletes) != deletes:
                    ck.fail("an interface is excluded exactly when both of its end junctions are flagged; the rest keep their order",
                            f"get_system_velocity_per_frame(angle_limit) assembles {len(fm_l.big_edges_to_use)} unknowns, build_force_matrix(angle_limit) {len(used)}", case)
            ck.count("second_entry_point_checked")
        except FloatingPointError:
            ck.count("second_entry_point_zero_mean_speed")
    # ---------------- K
    if not code_near:
        reqs.append({"op": "fmatrix", "mesh": mesh_json(frame.vertices, frame.edges, frame.cells),
                     "centers": [[rat(a), rat(b)] for a, b in cs], "cos": None if lim is None else rat(math.cos(lim)), "ignoreFour": False})
        pending.append(("fm", case, used, deletes))
        if rec is not None and len(x) == len(internal):
            reqs.append({"op": "realign", "internal": internal, "deletes": deletes, "x": [rat(v) for v in rec["xres_raw"][:-1]]})
            pending.append(("realign", case, x, None))
    else:
        ck.count("rejected_pair_within_1e-9_of_limit")
    ck.case(case, nontrivial=len(deletes) > 0,
            sample=({"case": case, "internal": len(internal), "flagged": len(deletes), "used": len(used)} if len(ck.samples) < 3 else None))
    ck.count("flagged_junctions", len(deletes)); ck.count("excluded_interfaces", len(internal) - len(used))
    ck.count("method_" + str(case.get("method"))); ck.count("rhs_" + case["rhs"])
    return sc


def run(ck):
    ck.rule = ("equilibrium and noisy Voronoi/Moebius tissues, angle limits uniform in [0.5 pi, pi], pi itself and the defaults, static and "
               "velocity right-hand sides, default and lsq back-ends with user-supplied initial conditions; brick lattices of two-point "
               "interfaces (exactly antiparallel pairs) under the default limit. Non-trivial = at least one junction flagged; distinct = parameters")
    ck.assumptions = ["arccos/cos are evaluated in IEEE arithmetic; the model decides cos(angle) <= cos(limit) exactly with cos(limit) as the "
                      "float's rational value; cases with a pair within 1e-9 of the limit are rejected and counted",
                      "the closed-form oracle skips cases with a junction whose largest opening angle is within 0.1 rad of the limit (finding D2 moves tangents by up to 0.09 rad)"]
    cases = [ck.replaying["case"]] if ck.replaying else gen_cases(ck)
    reqs, pending, keep = [], [], []
    for case in cases:
        keep.append(ck.guard(case, run_case, ck, case, reqs, pending))
    resps = ck.driver(reqs)
    for (kind, case, a, b), resp in zip(pending, resps):
        if kind == "fm":
            if resp["used"] != a:
                ck.disagree("big_edges_to_use", f"model {len(resp['used'])} impl {len(a)}", case)
            if sorted(resp["deletes"]) != b:
                ck.disagree("deletes", f"model {sorted(resp['deletes'])[:6]} impl {b[:6]}", case)
        else:
            got = [float(unrat(v)) for v in resp["res"]]
            if got != [float(v) for v in a]:
                ck.disagree("realign", f"model {got[:8]} impl {a[:8]}", case)
