"""C18 — coarse-grained stress tensor: symmetric, zero outside the averaging radius, jointly linear in
(pressures, tensions), -p*I for pure pressure; principal stresses = eig of these tensors at the grid centres.

K (correspondence): forsys.stress_tensor.get_cells_df / get_big_edges_df / stress_tensor and
    Frame.calculate_stress_tensor of the real code vs. the Lean model (Model/StressTensor.lean):
    interface vectors (1e-9 of their norm; end choice exact unless the float orientation is rounding noise),
    cell pairs exact, bin edges vs. the exact linspace (1e-12), bin centres (1e-12), dictionary keys and their
    order exactly, selected cells per grid cell exactly, tensors at 1e-10 relative to the scale of the summed terms.
S (property oracle on the real code): symmetry, zero where no centre is within the radius (independent selection),
    linearity by running the real function on (p,T), (p',T'), (a p + b p', a T + b T'), -p*I for T = 0 and constant p,
    one tensor per grid cell (fails for grid >= 12: known finding KF2), principal stresses = eigen-decomposition
    (closed form for symmetric 2x2, eigenvectors through the residual |M v - lambda v|, i.e. up to sign) of the
    tensor of the grid cell at that position.
"""
import math
import numpy as np

import gen
import impl
from dump import rat, unrat

import forsys.stress_tensor as fst
import forsys.virtual_edges as ve

SIG_KF2 = "grid-ge-12-key-collision"
TOL = 1e-10          # tensors, relative to the scale of the summed terms
TOL_VEC = 1e-9       # interface vectors, relative to their norm
TOL_BIN = 1e-12      # bin edges / centres, relative to the coordinate scale
NEAR = 1e-9          # rejection band around the radius threshold (relative to min_distance**2)


# ----------------------------------------------------------------------------------------------- inputs
def build_case(ck, case):
    rng = np.random.default_rng(case["seed"])
    if case["type"] == "lattice":
        topo = gen.lattice_topo("square", case["nx"], case["ny"])
        sub = None
    else:
        topo = gen.voronoi_topo(rng, case["sites"], case["kind"])
        if topo is None or topo.ncells() < 1:
            ck.count("tissue_rejected")
            return None
        sub = None
        if case.get("subset"):
            sub = gen.connected_subsets(topo, rng, max(1, int(round(topo.ncells() * case["subset"]))))
        if case.get("single"):
            sub = [int(rng.integers(topo.ncells()))]
    mob = gen.Mobius.random(rng, topo, strength=case.get("strength", 1.0)) if case.get("mobius") else None
    sim = gen.Similarity(angle=case.get("angle", 0.0), scale=case.get("scale", 1.0),
                         shift=complex(case.get("tx", 0.0), case.get("ty", 0.0)), reflect=bool(case.get("reflect", False)))
    rev = [c for c in range(topo.ncells()) if rng.random() < case.get("p_rev", 0.0)]
    cid_mode = case.get("cid", 0)
    cmap = {0: (lambda i: i), 1: (lambda i: 5 * i + 11), 2: (lambda i: i - 1)}[cid_mode]   # mode 2: some cell has id -1
    kmax = case.get("kmax", 3)
    ks = {}

    def k_of(r):
        if r not in ks:
            ks[r] = int(rng.integers(0, kmax + 1))
        return ks[r]
    bm = gen.build_mesh(topo, sub, rng=rng, param_mode="random", mobius=mob, sim=sim, k_of_ridge=k_of,
                        reverse_cells=rev, vmap=(lambda i: 3 * i + 2), cmap=cmap, center_method="mean")
    frame = impl.make_frame(bm)
    return bm, frame, rng


def loads(rng, frame, mode):
    """two independent assignments (pressures per cell id, tensions per interface id) and two coefficients"""
    nc, ne = len(frame.cells), len(frame.big_edges)

    def draw(n):
        x = rng.normal(size=n) * 10.0 ** rng.integers(-2, 3)
        x[rng.random(n) < 0.15] = 0.0
        return [float(v) for v in x]
    p1, p2, t1, t2 = draw(nc), draw(nc), draw(ne), draw(ne)
    if mode == "positive":
        p1, t1 = [abs(v) for v in p1], [abs(v) + 0.1 for v in t1]
    elif mode == "zero_tension":
        t1 = [0.0] * ne
    elif mode == "zero_pressure":
        p1 = [0.0] * nc
    elif mode == "one_cell":
        p1 = [0.0] * nc
        if nc:
            p1[int(rng.integers(nc))] = 1.0
        t1 = [0.0] * ne
    a, b = float(np.round(rng.normal() * 3, 3)), float(np.round(rng.normal() * 3, 3))
    p0 = float(np.round(rng.normal() * 5, 3))
    return p1, t1, p2, t2, a, b, p0


def assign(frame, ps, ts):
    for c, p in zip(frame.cells.values(), ps):
        c.pressure = p
    for be, t in zip(frame.big_edges.values(), ts):
        be.tension = t
        # reference ("ground truth") tensions are another quantity: they must not enter the tensor
        be.gt = 0.7 + 0.01 * (int(be.big_edge_id) % 13)


def run_real(frame, grid, radius):
    s, bc, (xb, yb) = impl.quiet(fst.stress_tensor, frame, grid, radius)
    return s, bc, xb, yb


def pykey(row, col):
    return f"{row}{col}"


# ----------------------------------------------------------------------------------------------- independent data
def frame_rows(frame):
    """the rows the data frames should contain, read directly from the frame objects"""
    cells = []
    for cid, cell in frame.cells.items():
        cm = cell.get_cm()
        cells.append((int(cid), float(cm[0]), float(cm[1]), abs(float(cell.get_area())), float(cell.pressure)))
    edges = []
    for _, be in frame.big_edges.items():
        own = [int(c) for c in be.own_cells]
        edges.append((float(be.tension), own))
    return cells, edges


def selection(cells, cx, cy, md2):
    """independent radius test; returns (selected ids, closest relative distance to the threshold)"""
    sel, near = [], math.inf
    for (cid, x, y, A, p) in cells:
        d2 = (cx - x) ** 2 + (cy - y) ** 2
        near = min(near, abs(d2 - md2) / md2 if md2 > 0 else math.inf)
        if d2 <= md2:
            sel.append(cid)
    return sel, near


def cell_scale(cells, erows, sel):
    """magnitude of the terms summed for one grid cell divided by the total area (rounding errors scale with it)"""
    ids = set(sel)
    tot = math.fsum(A for (cid, x, y, A, p) in cells if cid in ids)
    if tot == 0:
        return 0.0, 0.0
    sp = math.fsum(abs(p) * A for (cid, x, y, A, p) in cells if cid in ids)
    stn = math.fsum(abs(T) * n for (T, vx, vy, n, c1, c2) in erows if c1 in ids or c2 in ids)
    return tot, (sp + stn) / tot


def sym_eig(m):
    """closed-form eigenvalues of a symmetric 2x2 matrix, ascending"""
    xx, xy, yy = m[0][0], m[0][1], m[1][1]
    mid, rad = (xx + yy) / 2, math.hypot((xx - yy) / 2, xy)
    return mid - rad, mid + rad


def as_mat(q):
    return [[float(unrat(q[0])), float(unrat(q[1]))], [float(unrat(q[2])), float(unrat(q[3]))]]


def mat_diff(a, b):
    return max(abs(float(a[i][j]) - float(b[i][j])) for i in range(2) for j in range(2))


# ----------------------------------------------------------------------------------------------- one case
def run_case(ck, case, reqs, pending):
    try:
        _run_case(ck, case, reqs, pending)
    except (ArithmeticError, KeyError, IndexError, ValueError, TypeError, AttributeError) as ex:
        # the real functions are total on frames with at least one cell; an exception is a failure of the property
        import traceback
        tb = traceback.extract_tb(ex.__traceback__)
        where = next((f"{f.filename.split('/')[-1]}:{f.lineno}" for f in reversed(tb) if "/forsys/" in f.filename), None)
        if where is None:
            raise
        ck.fail("stress_tensor / calculate_stress_tensor return tensors for every frame with cells",
                f"raises {type(ex).__name__}: {ex} at {where}", case)
        ck.case(case, nontrivial=False)


def _run_case(ck, case, reqs, pending):
    built = build_case(ck, case)
    if built is None:
        return
    bm, frame, rng = built
    grid, radius = int(case["grid"]), float(case["radius"])
    p1, t1, p2, t2, a, b, p0 = loads(rng, frame, case.get("load", "random"))
    nc, ne = len(frame.cells), len(frame.big_edges)
    if nc == 0:
        ck.count("tissue_rejected")
        return
    assign(frame, p1, t1)
    cells, etens = frame_rows(frame)

    # -------- real code, load 1
    s1, bc, xb, yb = run_real(frame, grid, radius)
    keys_real = list(s1.keys())
    dfc = fst.get_cells_df(frame)
    dfe = impl.quiet(fst.get_big_edges_df, frame)
    xb = [float(v) for v in xb]
    yb = [float(v) for v in yb]
    md = radius * np.sqrt(np.mean([c[3] for c in cells]) / np.pi)
    md2 = float(md ** 2)
    tuned = case.get("_tuned")
    if tuned:
        # the radius was tuned so that one cell centre lies on the averaging circle exactly in the code's own float arithmetic
        # (pandas mean, the same expression): "within the radius" includes the circle
        md2 = float((radius * np.sqrt(dfc["area"].mean() / np.pi)) ** 2)
    coord = max(1e-300, max(abs(v) for v in xb + yb))

    # K: get_cells_df against the frame objects
    got_cells = [(int(i), float(x), float(y), float(A), float(p)) for i, x, y, A, p in
                 zip(dfc["ids"], dfc["xcm"], dfc["ycm"], dfc["area"], dfc["pressure"])]
    if len(got_cells) != len(cells) or any(g[0] != w[0] or max(abs(g[k] - w[k]) for k in (1, 2)) > TOL_BIN * coord
                                           or abs(g[3] - w[3]) > 1e-12 * max(w[3], 1e-300) or g[4] != w[4]
                                           for g, w in zip(got_cells, cells)):
        ck.disagree("cells_df", f"get_cells_df rows {got_cells[:2]} vs frame (id, cm, |area|, pressure) {cells[:2]}", case)
    # K: stress / cell1 / cell2 columns against the frame objects (model: beCellPair)
    vecs = [np.asarray(v, dtype=float) for v in dfe["vector"]] if ne else []
    erows = []
    for i, (T, own) in enumerate(etens):
        v = vecs[i]
        n = float(np.linalg.norm(v))
        erows.append((float(dfe["stress"].iloc[i]), float(v[0]), float(v[1]), n, int(dfe["cell1"].iloc[i]), int(dfe["cell2"].iloc[i])))
        if erows[-1][0] != T:
            ck.disagree("edges_df", f"interface {i}: stress column {erows[-1][0]} vs tension {T}", case)
        if n == 0.0:
            ck.count("rejected_zero_vector")
            return
    # the model's input rows: cells from the frame, interfaces = (tension, real vector, its norm, model cell pair)
    ereq = []
    for _, be in frame.big_edges.items():
        xc, yc = impl.quiet(ve.calculate_circle_center, be.vertices, method="dlite")
        ereq.append({"ids": [int(v.id) for v in be.vertices], "pts": [[rat(v.x), rat(v.y)] for v in be.vertices],
                     "c": [rat(xc), rat(yc)], "own": [int(c) for c in be.own_cells]})

    # -------- independent selection per grid cell; reject inputs on the threshold
    grid_info = {}
    for row in range(grid):
        for col in range(grid):
            cx, cy = (xb[row + 1] + xb[row]) / 2, (yb[col + 1] + yb[col]) / 2
            sel, near = selection(got_cells if tuned else cells, cx, cy, md2)
            if near < NEAR and not (tuned and near == 0.0 and [row, col] == tuned[:2]):
                ck.count("rejected_near_radius")
                return
            tot, scale = cell_scale(cells, erows, sel)
            grid_info[(row, col)] = (cx, cy, sel, tot, scale)
    if case.get("on_circle") and not tuned:
        # look for a grid cell with one nearest centre well separated from the next, and for a radius that puts it on the circle exactly
        cr = np.sqrt(dfc["area"].mean() / np.pi)
        for (row, col), (cx, cy, sel, tot, scale) in sorted(grid_info.items()):
            d2s = sorted(((cx - g[1]) ** 2 + (cy - g[2]) ** 2, g[0]) for g in got_cells)
            if len(d2s) < 2 or d2s[0][0] <= 0 or d2s[1][0] < 1.5 * d2s[0][0]:
                continue
            t = float(d2s[0][0])
            r = float(math.sqrt(t) / cr)
            lo = hi = r
            found = None
            for _ in range(400):
                if float((lo * cr) ** 2) == t:
                    found = lo; break
                if float((hi * cr) ** 2) == t:
                    found = hi; break
                lo, hi = float(np.nextafter(lo, -np.inf)), float(np.nextafter(hi, np.inf))
            if found is not None and 0.05 < found < 50:
                ck.count("radius_tuned_onto_a_cell_centre")
                return _run_case(ck, dict(case, radius=found, _tuned=[int(row), int(col), int(d2s[0][1])]), reqs, pending)
        ck.count("on_circle_not_tunable")
    pairs_of_key = {}
    for rc in grid_info:
        pairs_of_key.setdefault(pykey(*rc), []).append(rc)
    unique = {rc for rc in grid_info if len(pairs_of_key[pykey(*rc)]) == 1}

    # -------- S: one tensor per grid cell
    if len(s1) != grid * grid:
        ck.fail("one tensor per grid cell", f"grid={grid}: {len(s1)} dictionary entries for {grid*grid} grid cells; "
                f"colliding keys {sorted(k for k, v in pairs_of_key.items() if len(v) > 1)}", case,
                signature=SIG_KF2 if grid >= 12 and set(s1.keys()) == set(pairs_of_key) else None)
        ck.count("key_collisions_seen")
    if set(s1.keys()) != set(pairs_of_key):
        ck.fail("keys are f'{row}{column}' of the grid cells", f"{sorted(set(s1.keys()) ^ set(pairs_of_key))[:6]}", case)
        ck.case(case, nontrivial=False)
        return
    # -------- S: symmetry, zeros
    nonzero_cells = 0
    for key, m in s1.items():
        sc = max((grid_info[rc][4] for rc in pairs_of_key.get(key, [])), default=0.0)
        if m.shape != (2, 2) or abs(m[0, 1] - m[1, 0]) > 1e-14 * sc:
            ck.fail("each tensor is symmetric", f"key {key}: {m.tolist()}", case)
    for rc in unique:
        cx, cy, sel, tot, scale = grid_info[rc]
        m = s1[pykey(*rc)]
        if not sel or tot == 0:
            if np.any(m != 0):
                ck.fail("zero matrix where no cell centre lies within the radius", f"grid cell {rc}: {m.tolist()}", case)
            ck.count("zero_grid_cells")
        else:
            nonzero_cells += 1
    # -------- S: linearity on the real code
    assign(frame, p2, t2)
    s2, _, _, _ = run_real(frame, grid, radius)
    p3 = [a * x + b * y for x, y in zip(p1, p2)]
    t3 = [a * x + b * y for x, y in zip(t1, t2)]
    assign(frame, p3, t3)
    s3, _, _, _ = run_real(frame, grid, radius)
    assign(frame, [p0] * nc, [0.0] * ne)
    s4, _, _, _ = run_real(frame, grid, radius)
    if any(set(x.keys()) != set(s1.keys()) for x in (s2, s3, s4)):
        ck.fail("the set of keys does not depend on the loads", "key sets differ between runs on the same geometry", case)
        ck.case(case, nontrivial=False)
        return
    worst_lin = 0.0
    for rc in unique:
        cx, cy, sel, tot, _ = grid_info[rc]
        if not sel or tot == 0:
            continue
        ids = set(sel)
        # scale of the terms of all three runs
        sp = math.fsum((abs(a * x) + abs(b * y)) * c[3] for c, x, y in zip(cells, p1, p2) if c[0] in ids)
        stn = math.fsum((abs(a * x) + abs(b * y)) * e[3] for e, x, y in zip(erows, t1, t2) if e[4] in ids or e[5] in ids)
        sc = (sp + stn) / tot
        k = pykey(*rc)
        d = float(np.max(np.abs(s3[k] - (a * s1[k] + b * s2[k]))))
        if sc > 0:
            worst_lin = max(worst_lin, d / sc)
        if d > TOL * sc:
            ck.fail("jointly linear in (pressures, tensions)", f"grid cell {rc}: sigma(a p+b p', a T+b T') - a sigma - b sigma' = {d}, scale {sc}, a={a} b={b}", case)
    ck.dist["worst_linearity_rel"] = max(ck.dist.get("worst_linearity_rel", 0.0), worst_lin)
    # -------- S: pure pressure
    for rc in unique:
        cx, cy, sel, tot, _ = grid_info[rc]
        if not sel or tot == 0:
            continue
        m = s4[pykey(*rc)]
        if mat_diff(m, [[-p0, 0.0], [0.0, -p0]]) > TOL * abs(p0):
            ck.fail("-p*I when all tensions vanish and every cell has pressure p", f"grid cell {rc}: p={p0} tensor {m.tolist()}", case)
    # -------- principal stresses on the real code, load 1
    assign(frame, p1, t1)
    try:
        # the frame has already served another grid: what is reported afterwards belongs to the grid asked for last
        impl.quiet(frame.calculate_stress_tensor, (grid % 7) + 2, radius * 1.5)
        ck.count("principal_after_a_call_with_another_grid")
        impl.quiet(frame.calculate_stress_tensor, grid, radius)
    except Exception as ex:
        ck.fail("Frame.calculate_stress_tensor computes the principal stresses", f"raises {type(ex).__name__}: {ex}", case)
        ck.case(case, nontrivial=False)
        return
    principal = {(float(k[0]), float(k[1])): (np.asarray(v[0]), np.asarray(v[1])) for k, v in frame.principal_stress.items()}
    st_inside = frame.stress_tensor
    if list(st_inside[0].keys()) != keys_real or any(np.any(st_inside[0][k] != s1[k]) for k in keys_real):
        ck.fail("Frame.stress_tensor is stress_tensor(frame, coarsing, radius)", "differs from a direct call with the same arguments", case)

    if tuned:
        # the exact model has no square root and cannot decide a centre on the circle: oracle only
        ck.case(case, nontrivial=True)
        ck.count("centre_exactly_on_the_averaging_circle")
        return
    reqs.append({"op": "st_edges", "edges": ereq})
    reqs.append({"op": "stress_tensor", "cells": [[c[0], rat(c[1]), rat(c[2]), rat(c[3]), rat(c[4])] for c in cells],
                 "edges": [[rat(e[0]), rat(e[1]), rat(e[2]), rat(e[3]), e[4], e[5]] for e in erows],
                 "xbins": [rat(v) for v in xb], "ybins": [rat(v) for v in yb], "md2": rat(md2), "grid": grid})
    xs, ys = [c[1] for c in cells], [c[2] for c in cells]
    reqs.append({"op": "bin_edges", "lo": rat(min(xs)), "hi": rat(max(xs)), "grid": grid})
    reqs.append({"op": "bin_edges", "lo": rat(min(ys)), "hi": rat(max(ys)), "grid": grid})
    pending.append({"case": case, "s1": s1, "keys": keys_real, "bc": [[float(v) for v in bc[0]], [float(v) for v in bc[1]]],
                    "xb": xb, "yb": yb, "vecs": vecs, "erows": erows, "etens": etens, "grid_info": grid_info, "unique": unique,
                    "pairs_of_key": pairs_of_key, "principal": principal, "coord": coord, "frame": frame, "bm": bm})
    nontrivial = nonzero_cells > 0 and ne > 0
    ck.case(case, nontrivial=nontrivial,
            sample={"case": case, "cells": nc, "interfaces": ne, "grid_cells_with_area": nonzero_cells} if len(ck.samples) < 3 else None)
    ck.count(f"grid_{grid}")
    ck.count("cells_total", nc)
    ck.count("interfaces_total", ne)
    ck.count("two_point_interfaces", sum(1 for be in frame.big_edges.values() if len(be.vertices) == 2))
    ck.count("nonzero_grid_cells", nonzero_cells)
    if case.get("mobius"):
        ck.count("curved_tissues")
    if nc == 1:
        ck.count("single_cell_tissues")


# ----------------------------------------------------------------------------------------------- after the driver
def compare(ck, pd, r_edges, r_st, r_bx, r_by):
    case = pd["case"]
    grid = int(case["grid"])
    # ---- K: interface vectors and cell pairs
    for i, (me, v, er) in enumerate(zip(r_edges["edges"], pd["vecs"], pd["erows"])):
        n = er[3]
        if me["cells"] is None or [er[4], er[5]] != [int(x) for x in me["cells"]]:
            ck.disagree("cell1/cell2", f"interface {i}: model {me['cells']} impl {[er[4], er[5]]}", case)
        if me["vector"] is None:
            ck.disagree("vector", f"interface {i}: model says the code raises", case)
            continue

        def dist(q):
            return math.hypot(float(unrat(q[0])) - v[0], float(unrat(q[1])) - v[1])
        ori = float(unrat(me["orientation"]))
        req = pd["frame"].big_edges
        be = list(req.values())[i]
        oscale = math.fsum(abs(p.x * q.y) + abs(p.y * q.x) for p, q in zip(be.vertices, be.vertices[-1:] + be.vertices[:-1]))
        if abs(ori) > 1e-9 * max(oscale, 1e-300) or len(be.vertices) == 2:
            if dist(me["vector"]) > TOL_VEC * n:
                ck.disagree("vector", f"interface {i}: model {[float(unrat(q)) for q in me['vector']]} impl {v.tolist()}", case)
            ck.count("vectors_compared")
        else:
            # collinear interface: the sign of the float orientation is rounding noise; either end is legitimate
            cands = [q for q in (me["fromFirst"], me["fromLast"]) if q is not None]
            if min(dist(q) for q in cands) > TOL_VEC * n:
                ck.disagree("vector", f"interface {i} (orientation ~ 0): impl {v.tolist()} is the vector from neither end", case)
            ck.count("vectors_orientation_ambiguous")
    # ---- K: bin edges = exact linspace, centres
    for name, rb, b, cen, mcen in (("x", r_bx, pd["xb"], pd["bc"][0], r_st["xCenters"]), ("y", r_by, pd["yb"], pd["bc"][1], r_st["yCenters"])):
        mb = [float(unrat(q)) for q in rb["edges"]]
        if len(mb) != len(b) or max(abs(p - q) for p, q in zip(mb, b)) > TOL_BIN * pd["coord"]:
            ck.disagree("bin_edges", f"{name}: exact linspace {mb[:3]}… vs numpy {b[:3]}…", case)
        mc = [float(unrat(q)) for q in mcen]
        if len(mc) != len(cen) or (mc and max(abs(p - q) for p, q in zip(mc, cen)) > TOL_BIN * pd["coord"]):
            ck.disagree("bin_centres", f"{name}: model {mc[:3]} impl {cen[:3]}", case)
        # S: bin-centre formula on the real output
        if len(cen) != grid or any(abs(cen[i] - (b[i] + b[i + 1]) / 2) > TOL_BIN * pd["coord"] for i in range(len(cen))):
            ck.fail("bin centres are the midpoints of the bins", f"{name}: {cen[:3]} from edges {b[:4]}", case)
    # ---- K: dictionary keys in order, tensors
    mkeys = [e[0] for e in r_st["sigmas"]]
    if mkeys != pd["keys"]:
        ck.disagree("keys", f"model {mkeys[:8]}… ({len(mkeys)}) impl {pd['keys'][:8]}… ({len(pd['keys'])})", case)
    loop = {(int(t[0]), int(t[1])): t for t in r_st["loop"]}
    for rc, t in loop.items():
        if t[2] != pykey(*rc):
            ck.disagree("key", f"grid cell {rc}: model key {t[2]} python {pykey(*rc)}", case)
        if sorted(int(x) for x in t[5]) != sorted(pd["grid_info"][rc][2]):
            ck.disagree("selection", f"grid cell {rc}: model selects {t[5]}, independent float test {pd['grid_info'][rc][2]}", case)
    worst = 0.0
    for key, q in r_st["sigmas"]:
        if key not in pd["s1"]:
            continue
        sc = max(pd["grid_info"][rc][4] for rc in pd["pairs_of_key"][key])
        d = mat_diff(as_mat(q), pd["s1"][key])
        if sc > 0:
            worst = max(worst, d / sc)
        if d > TOL * sc:
            ck.disagree("tensor", f"key {key}: model {as_mat(q)} impl {pd['s1'][key].tolist()} scale {sc}", case)
    ck.dist["worst_tensor_rel"] = max(ck.dist.get("worst_tensor_rel", 0.0), worst)
    # ---- S: principal stresses = eigen-decomposition of the tensor of the grid cell at that position
    pr = pd["principal"]
    mprin = r_st["principal"]
    if len(pr) != grid * grid:
        ck.fail("one principal-stress entry per grid cell", f"{len(pr)} entries for grid {grid}", case)
    for idx, (mx, my, mq) in enumerate(mprin):
        row, col = divmod(idx, grid)
        pos = (pd["bc"][0][row], pd["bc"][1][col])
        if abs(float(unrat(mx)) - pos[0]) > TOL_BIN * pd["coord"] or abs(float(unrat(my)) - pos[1]) > TOL_BIN * pd["coord"]:
            ck.disagree("principal position", f"grid cell {(row, col)}: model {(float(unrat(mx)), float(unrat(my)))} impl {pos}", case)
        if pos not in pr:
            ck.fail("principal stresses are stored at the grid centres", f"no entry at {pos} (grid cell {(row, col)})", case)
            continue
        vals, vecs = pr[pos]
        rc = (row, col)
        collides = rc not in pd["unique"]
        # the tensor of this grid cell: what the real code stored for it, or — when its key is shared — the model's
        # tensor of the double loop (validated against the real dictionary on all unshared keys above)
        want = as_mat(loop[rc][3]) if collides else pd["s1"][pykey(*rc)].tolist()
        sc = max(pd["grid_info"][q][4] for q in pd["pairs_of_key"][pykey(*rc)])
        lo, hi = sym_eig(want)
        got = sorted(float(np.real(x)) for x in vals)
        tol = 1e-9 * sc
        sig = SIG_KF2 if (grid >= 12 and collides) else None
        if abs(got[0] - lo) > tol or abs(got[1] - hi) > tol:
            ck.fail("principal stresses are the eigenvalues of the tensor at the grid centre",
                    f"grid cell {rc} key {pykey(*rc)}: reported {got}, tensor of the grid cell {want} has {[lo, hi]}", case, signature=sig)
            continue
        if hi - lo > 1e-6 * sc and sc > 0:
            for j in range(2):
                lam = float(np.real(vals[j]))
                v = np.real(vecs[:, j])
                res = np.asarray(want) @ v - lam * v
                if abs(np.linalg.norm(v) - 1) > 1e-9 or np.linalg.norm(res) > 1e-8 * sc:
                    ck.fail("principal directions are unit eigenvectors of the tensor at the grid centre",
                            f"grid cell {rc}: vector {v.tolist()} eigenvalue {lam} residual {np.linalg.norm(res)}", case, signature=sig)
            ck.count("eigenvectors_checked")
        else:
            ck.count("eigenvectors_skipped_degenerate")
    # the model's lookup reproduces what the real code handed to eig (collisions included)
    for idx, (mx, my, mq) in enumerate(mprin):
        row, col = divmod(idx, grid)
        if mq is None:
            ck.disagree("principal lookup", f"grid cell {(row, col)}: model KeyError", case)
            continue
        real = pd["s1"].get(pykey(row, col))
        sc = max(pd["grid_info"][q][4] for q in pd["pairs_of_key"][pykey(row, col)])
        if real is not None and mat_diff(as_mat(mq), real) > TOL * sc:
            ck.disagree("principal lookup", f"grid cell {(row, col)}: model looks up {as_mat(mq)} impl {real.tolist()}", case)


def gen_cases(ck):
    quick = ck.tier == "quick"
    n = 14 if quick else 150
    grids_cycle = [12, 1, 5, 10, 11, 2, 3, 7, 12, 4, 6, 8, 9, 11]
    loads_cycle = ["random", "random", "positive", "zero_tension", "random", "zero_pressure", "one_cell"]
    cases = []
    for i in range(n):
        grid = grids_cycle[i % len(grids_cycle)]
        big = grid >= 10
        case = {"type": "tissue", "seed": int(ck.rng.integers(1 << 30)),
                "sites": int(ck.rng.integers(10, 26 if big else 40)), "kind": ["random", "jitter", "hex"][i % 3],
                "kmax": int(ck.rng.integers(0, 5)), "mobius": bool(i % 2 == 0), "strength": float(np.round(ck.rng.uniform(0.5, 3.0), 2)),
                "subset": None if i % 4 else float(np.round(ck.rng.uniform(0.3, 0.8), 2)),
                "p_rev": [0.0, 0.5, 1.0][(i // 3) % 3], "cid": i % 3,
                "angle": float(np.round(ck.rng.uniform(0, 6.28), 3)), "scale": float(10.0 ** int(ck.rng.integers(-6, 3))),
                "tx": float(np.round(ck.rng.normal() * 10.0 ** int(ck.rng.integers(-1, 3)), 3)),
                "ty": float(np.round(ck.rng.normal() * 10.0 ** int(ck.rng.integers(-1, 3)), 3)),
                "reflect": bool(i % 5 == 3),
                "grid": grid, "radius": float(np.round(ck.rng.uniform(0.5, 6.0), 3)),
                "load": loads_cycle[i % len(loads_cycle)]}
        if i % 13 == 5:
            case["single"] = True
        if i % 4 == 1:
            # the radius is then re-tuned so that a cell centre lies on the averaging circle exactly (when such a radius exists)
            case["on_circle"] = True
            case["radius"] = float(np.round(ck.rng.uniform(0.4, 1.2), 3))
            case["grid"] = int(min(grid, 6))
        cases.append(case)
    return cases


def run(ck):
    ck.rule = ("Voronoi tissues / connected sub-tissues / single cells (random, jittered, hexagonal sites; straight or "
               "Moebius-curved interfaces with 0..4 interior points; rotated, scaled 1e-6..1e2, shifted, reflected; cell ids "
               "0.., 5i+11 or starting at -1; clockwise cells) x grid 1..12 x radius 0.5..6 cell radii x directly assigned "
               "pressures and tensions (normal at scales 1e-2..1e2, 15% exact zeros, negative values; also positive-only, "
               "zero tensions, zero pressures, a single loaded cell); non-trivial = some grid cell selects cells with non-zero "
               "area and the tissue has interfaces; distinct = distinct generator parameters")
    ck.assumptions = ["np.linalg.norm, np.sqrt, np.pi and float summation inside stress_tensor are trusted (tensors compared at 1e-10 of the summed terms' scale)",
                      "the fitted circle centre (calculate_circle_center, dlite) is an input of the model",
                      "np.histogram's bin edges are inputs of the model; they are compared with the exact linspace at 1e-12",
                      "np.linalg.eig is not modelled: its output is checked against the closed-form eigenvalues and the eigenvector residual",
                      "inputs with a cell centre within 1e-9 (relative, squared) of the averaging radius are rejected"]
    ck.explanation = ("KF2: the key f'{row}{column}' is injective for indices < 11 (proved) and collides from grid = 12 on "
                      "((1,10)/(11,0) -> '110', (1,11)/(11,1) -> '111'); grid 11 has no collision")
    reqs, pending = [], []
    if ck.replaying:
        cases = [ck.replaying["case"]]
    else:
        cases = ck.corpus_cases() + gen_cases(ck)
    for case in cases:
        run_case(ck, case, reqs, pending)
    resps = ck.driver(reqs)
    for i, pd in enumerate(pending):
        compare(ck, pd, *resps[4 * i: 4 * i + 4])
    # the witness of the Lean theorem `key_collision_witness`, replayed on Python's f-string
    kr = ck.driver([{"op": "st_key", "pairs": [[r, c] for r in range(13) for c in range(13)]}])[0]["keys"]
    want = [pykey(r, c) for r in range(13) for c in range(13)]
    if kr != want:
        ck.disagree("key", "model key differs from Python's f'{row}{column}' on 0..12 x 0..12", {"type": "keys"})
    if not (pykey(1, 11) == pykey(11, 1) == "111"):
        ck.disagree("key", "witness (1,11)/(11,1) does not collide in Python", {"type": "keys"})
