"""C04 — pressure step: Young-Laplace equations with a zero-sum least-squares solution.

K: BigEdge.calculate_curvature / calculate_total_curvature vs. the model's rational ingredients (`curvParts`; the `**1.5` and
   the square roots are applied by the harness), PressureMatrix (lhs, removed columns, mapping order, rhs) vs. the model
   (`pressureRow`, `removedColumns`, `dropColumns`), the exact-arithmetic certificate of the constrained least-squares
   solution (gradient constant, zero sum; theorem const_grad_sound / normal_eq_sound) and the zero re-insertion.
S: row orientation against the geometry (the cell on the centre-of-curvature side gets +1 when the right-hand side is
   positive), reversal / scale / straightness of the turning estimate, (n-2)/(n-1) theta within 3 % on uniform arcs, independent
   constrained solve, zero sum, linearity in the tensions, zeros for cells without internal interface, correlation with
   analytic Young-Laplace pressures (NOT proved: numerical clauses).
"""
import math
import numpy as np

import gen
import impl
import statics
from dump import mesh_json, rat, unrat

import forsys as fs
import forsys.vertex as fvertex
import forsys.edge as fedge


def make_big_edge(pts):
    vs = [fvertex.Vertex(i, float(x), float(y)) for i, (x, y) in enumerate(pts)]
    es = [fedge.SmallEdge(i, vs[i], vs[i + 1]) for i in range(len(vs) - 1)]
    be = fedge.BigEdge(0, vs)
    return be, vs, es


def arc_points(n, theta, R=1.0, rot=0.0, c=(0.0, 0.0), spacing="uniform", rng=None):
    if spacing == "uniform":
        ts = np.linspace(0, theta, n)
    else:
        ts = np.sort(np.concatenate([[0, theta], rng.uniform(0, theta, n - 2)]))
    return [(c[0] + R * math.cos(rot + t), c[1] + R * math.sin(rot + t)) for t in ts]


def total_from_parts(parts):
    num = [float(unrat(x)) for x in parts["num"]]
    sp = [float(unrat(x)) for x in parts["speedSq"]]
    seg = [float(unrat(x)) for x in parts["segSq"]]
    kap = [a / (b ** 1.5) for a, b in zip(num, sp)]
    return kap, math.fsum((kap[i + 1] + kap[i]) / 2 * math.sqrt(seg[i]) for i in range(len(seg)))


def gen_cases(ck):
    cases = ck.corpus_cases()
    na = 40 if ck.tier == "quick" else 400
    for i in range(na):
        cases.append({"type": "arc", "seed": int(ck.rng.integers(1 << 30)), "n": int(ck.rng.integers(3, 18)),
                      "theta": float(ck.rng.uniform(0.02, 1.5)), "R": float(10.0 ** ck.rng.uniform(-2, 2)),
                      "rot": float(ck.rng.uniform(0, 6.28)), "spacing": ["uniform", "uniform", "random"][int(ck.rng.integers(3))],
                      "cw": bool(ck.rng.integers(2))})
    for i in range(8 if ck.tier == "quick" else 60):
        cases.append({"type": "line", "seed": int(ck.rng.integers(1 << 30)), "n": int(ck.rng.integers(3, 18)),
                      "rot": float(ck.rng.uniform(0, 6.28)), "len": float(10.0 ** ck.rng.uniform(-2, 2))})
    nt = 16 if ck.tier == "quick" else 120
    for i in range(nt):
        cases.append({"type": "tissue", "seed": int(ck.rng.integers(1 << 30)), "tissue": ["random", "jitter", "hex"][int(ck.rng.integers(3))],
                      "sites": int(ck.rng.integers(14, 34)), "subset": [None, None, 0.6][int(ck.rng.integers(3))], "min_ridge": 0.01,
                      "mobius": bool(ck.rng.integers(5) != 0), "strength": float(ck.rng.uniform(0.5, 2.5)),
                      "kmin": [1, 3, 3][int(ck.rng.integers(3))], "kmax": [15, 15, 8][int(ck.rng.integers(3))],
                      "angle": float(ck.rng.uniform(0, 6.28)), "scale": float(10.0 ** ck.rng.uniform(-1, 1)),
                      "p_rev": float(ck.rng.choice([0.0, 0.5, 1.0])), "shifts": True, "relabel": bool(ck.rng.integers(2)),
                      "shuffle_cells": bool(i % 2), "variant": 1,
                      "tensions": ["maxwell", "random", "inferred"][int(ck.rng.integers(3))]})
    for i in range(4 if ck.tier == "quick" else 24):
        # a cell with exactly two neighbours (statics.build_lens): a third cell touches both junctions of the two curved interfaces
        # between them; every interface still separates exactly two cells and gets its Young-Laplace equation
        ku = int(ck.rng.integers(1, 6)); kl = int(ck.rng.integers(1, 6))
        if kl == ku:
            kl += 1
        cases.append({"type": "tissue", "kind": "lens", "seed": int(ck.rng.integers(1 << 30)), "k_upper": ku, "k_lower": kl, "h_upper": 1.4, "h_lower": 0.9,
                      "angle": float(ck.rng.uniform(0, 6.28)), "scale": float(10.0 ** ck.rng.uniform(-1, 1)), "shift": [0.0, 0.0],
                      "shuffle_cells": bool(i % 2), "p_rev": [0.0, 0.5][i % 2], "shifts": True, "tensions": "random"})
    return cases


def run_arc(ck, case, reqs, pending):
    rng = np.random.default_rng(case["seed"])
    if case["type"] == "line":
        ts = np.sort(rng.uniform(0, 1, case["n"])); ts[0], ts[-1] = 0.0, 1.0
        d = (math.cos(case["rot"]), math.sin(case["rot"]))
        pts = [(3.0 + case["len"] * t * d[0], -2.0 + case["len"] * t * d[1]) for t in ts]
    else:
        pts = arc_points(case["n"], case["theta"], case["R"], case["rot"], (float(rng.normal()), float(rng.normal())), case["spacing"], rng)
        if case["cw"]:
            pts = pts[::-1]
    be, vs, es = make_big_edge(pts)
    if case["seed"] % 2:
        # read-only public calls made before the measured ones (a user tabulating mean curvatures first) must not change them
        be.calculate_total_curvature(); be.calculate_total_curvature(normalized=True); be.get_vertices_ids()
        ck.count("prior_reads")
    kap = [float(x) for x in be.calculate_curvature()]
    tot = float(be.calculate_total_curvature(normalized=False))
    n = len(pts)
    # ---------------- S
    if case["type"] == "line":
        if abs(tot) > 1e-6:
            ck.fail("the turning estimate is zero for straight interfaces", f"{tot} for {n} collinear points", case)
    else:
        be2, *_k2 = make_big_edge(pts[::-1])
        tot_rev = float(be2.calculate_total_curvature(normalized=False))
        if abs(tot_rev + tot) > 1e-9 * (abs(tot) + 1e-12):
            ck.fail("storing the interface in the other direction flips the sign of the turning (so the equation is unchanged)", f"{tot} vs reversed {tot_rev}", case)
        lam = 7.25
        be3, *_k3 = make_big_edge([(lam * x, lam * y) for x, y in pts])
        tot_sc = float(be3.calculate_total_curvature(normalized=False))
        # second differences of coordinates lose digits when the points are close together relative to their distance from the
        # origin: the comparison is conditioned by (|coords| / shortest segment)^2
        hmin = min(math.hypot(pts[i + 1][0] - pts[i][0], pts[i + 1][1] - pts[i][1]) for i in range(len(pts) - 1))
        cmax = max(max(abs(x), abs(y)) for x, y in pts)
        if abs(tot_sc - tot) > max(1e-9, 4e-16 * (cmax / max(hmin, 1e-300)) ** 2) * abs(tot):
            ck.fail("the turning estimate is unchanged by uniform scaling", f"{tot} vs scaled {tot_sc}", case)
        if case["spacing"] == "uniform":
            want = (n - 2) / (n - 1) * case["theta"]
            if abs(abs(tot) - want) > 0.03 * want:
                ck.fail("turning of a uniformly sampled n-point arc = theta (n-2)/(n-1) within 3 %", f"n={n} theta={case['theta']}: {abs(tot)} vs {want}", case)
            ck.dist["worst_turning_rel_dev"] = max(ck.dist.get("worst_turning_rel_dev", 0.0), abs(abs(tot) - want) / want)
            # sign: counter-clockwise arcs (as generated, not reversed) turn left
            if (tot > 0) == case["cw"]:
                pass
    reqs.append({"op": "curv_parts", "pts": [[rat(x), rat(y)] for x, y in pts]})
    pending.append(("curv", case, kap, tot))
    ck.case(case, sample=({"case": case, "total_turning": tot} if len(ck.samples) < 2 else None))
    ck.count("arcs" if case["type"] == "arc" else "lines")
    return be, vs, es


def analytic_pressures(sc, frame, obs, internal):
    """Young-Laplace pressures of the Moebius image: p(centre side) - p(other) = tau * kappa, integrated over the cell graph
    (least squares, zero mean); tau = Maxwell tension / mean over the inferred interfaces"""
    bm, topo = sc.bm, sc.topo
    jun = {vid: j for j, vid in bm.vid_of_junction.items()}
    cells = list(frame.cells.keys())
    pos = {c: i for i, c in enumerate(cells)}
    taus = []
    rows = []
    for i in internal:
        ids = obs["earr"][i]
        r = frozenset((jun[ids[0]], jun[ids[-1]]))
        taus.append(topo.tension(r))
    mean_tau = float(np.mean(taus))
    for tau, i in zip(taus, internal):
        ids = obs["earr"][i]
        P = np.array([[frame.vertices[v].x, frame.vertices[v].y] for v in ids])
        a, b, c = P[0], P[len(P) // 2], P[-1]
        # signed curvature of the circle through three points
        cr = (b[0] - a[0]) * (c[1] - a[1]) - (b[1] - a[1]) * (c[0] - a[0])
        la, lb, lc = np.linalg.norm(b - a), np.linalg.norm(c - b), np.linalg.norm(c - a)
        kappa = 2 * cr / (la * lb * lc) if la * lb * lc > 0 else 0.0      # >0: turning left along a->c
        oc = obs["beOwnCells"][i]
        # which cell is to the left of the chord a->c ?
        cen = {cc: np.mean([[v.x, v.y] for v in frame.cells[cc].vertices], axis=0) for cc in oc}
        side = {cc: (c[0] - a[0]) * (cen[cc][1] - a[1]) - (c[1] - a[1]) * (cen[cc][0] - a[0]) for cc in oc}
        left = max(oc, key=lambda cc: side[cc]); right = min(oc, key=lambda cc: side[cc])
        # turning left => centre of curvature on the left => left cell has the higher pressure
        row = np.zeros(len(cells)); row[pos[left]] = 1; row[pos[right]] = -1
        rows.append((row, tau / mean_tau * kappa))
    L = np.array([r for r, _ in rows]); rhs = np.array([v for _, v in rows])
    used = np.where(np.any(L != 0, axis=0))[0]
    sol, *_ = np.linalg.lstsq(np.vstack([L[:, used], np.ones((1, len(used)))]), np.concatenate([rhs, [0.0]]), rcond=None)
    p = np.zeros(len(cells)); p[used] = sol
    return p, used


def run_tissue(ck, case, reqs, pending):
    np.seterr(all="raise")
    sc = statics.build_lens(case) if case.get("kind") == "lens" else statics.build_static(case)
    if sc is None:
        ck.count("rejected_tissue"); return
    if case.get("kind") == "lens":
        ck.count("lens_tissue")
    statics.solve_setup(sc)
    frame, f = sc.frame, sc.forsys
    obs = impl.observe_frame(frame)
    internal = obs["internalIdx"]
    if not internal:
        ck.count("rejected_no_internal_interface"); return
    rng = np.random.default_rng(case["seed"] + 21)
    jun = {vid: j for j, vid in sc.bm.vid_of_junction.items()}
    tension_wellposed = True
    if case["tensions"] == "inferred":
        impl.quiet(f.solve_stress, when=0)
        A = np.array(f.force_matrices[0].matrix, dtype=float)
        if A.shape[0] < A.shape[1]:
            tension_wellposed = False       # more unknown tensions than equations: the inferred tensions are not determined
        else:
            sv = np.linalg.svd(np.block([[A, np.ones((A.shape[0], 1))], [np.ones((1, A.shape[1])), np.zeros((1, 1))]]), compute_uv=False)
            tension_wellposed = bool(sv[-1] >= 1e-3 * sv[0])
    else:
        for i, be in frame.big_edges.items():
            if case["tensions"] == "maxwell" and i in internal:
                r = frozenset((jun[obs["earr"][i][0]], jun[obs["earr"][i][-1]]))
                be.tension = float(sc.topo.tension(r))
            else:
                be.tension = float(rng.uniform(0.2, 3.0))
        f.forces[0] = {}
    tens = [float(frame.big_edges[i].tension) for i in range(len(obs["earr"]))]

    def solve():
        impl.quiet(f.build_pressure_matrix, when=0)
        pm = f.pressure_matrices[0]
        sol = impl.quiet(f.solve_pressure, when=0, method="lagrange_pressure")
        return pm, [float(c.pressure) for c in frame.cells.values()]
    if case["seed"] % 2:
        for be in frame.big_edges.values():
            if len(be.vertices) > 2:
                be.calculate_total_curvature(); be.calculate_curvature()
        ck.count("prior_reads")
    pm, press = solve()
    L = np.array(pm.lhs_matrix, dtype=float); rhs = np.array(pm.rhs_matrix, dtype=float)
    removed = [int(x) for x in pm.removed_columns]
    cells = list(frame.cells.keys())
    ncell = len(cells)
    tab = impl.quiet(frame.get_pressures)
    tabmap = {int(i): float(p_) for i, p_ in zip(tab["id"].tolist(), tab["pressure"].tolist())}
    if set(tabmap) != {int(c_) for c_ in cells} or any(abs(tabmap[int(cid)] - float(cl.pressure)) > 1e-12 * (1 + abs(float(cl.pressure))) for cid, cl in frame.cells.items()):
        ck.fail("the reported pressures (the table of get_pressures) are the cells' pressures, each under its own cell id",
                f"ids {sorted(tabmap)[:6]}..., first mismatch among {[(int(cid), tabmap.get(int(cid)), float(cl.pressure)) for cid, cl in frame.cells.items() if tabmap.get(int(cid)) != float(cl.pressure)][:2]}", case)
    curv = [float(frame.big_edges[i].calculate_total_curvature(normalized=False)) for i in range(len(obs["earr"]))]
    kept_cols = [j for j in range(ncell) if j not in removed]
    # cells that touch no internal interface carry no unknown (and are reported zero): decided here from the interfaces' own cells
    touched = {int(c_) for i in internal for c_ in frame.big_edges[i].own_cells}
    want_removed = [j for j, c_ in enumerate(cells) if int(c_) not in touched]
    if sorted(removed) != want_removed:
        ck.fail("pressures are zero for cells touching no internal interface (such cells carry no unknown of the system)",
                f"cells without an internal interface at positions {want_removed[:8]}, left out of the system: {sorted(removed)[:8]}", case)
    # ---------------- S: rows against the geometry
    if L.shape != (len(internal), len(kept_cols)):
        ck.fail("one equation per internal interface, one unknown per cell that has one", f"shape {L.shape}", case)
        ck.case(case); return
    for rix, i in enumerate(internal):
        row = L[rix]
        nz = [kept_cols[j] for j in np.nonzero(row)[0]]
        oc = obs["beOwnCells"][i]
        if sorted(cells[j] for j in nz) != sorted(oc) or sorted(row[np.nonzero(row)[0]].tolist()) != [-1.0, 1.0]:
            ck.fail("each equation is (pressure of one adjacent cell) - (pressure of the other)", f"interface {i}: row {row.tolist()}", case); break
        ids = obs["earr"][i]
        if len(ids) >= 3 and abs(rhs[rix]) > 1e-9 * max(1.0, abs(tens[i])):
            P = np.array([[frame.vertices[v].x, frame.vertices[v].y] for v in ids])
            a, b, c = P[0], P[len(P) // 2], P[-1]
            bulge = (c[0] - a[0]) * (b[1] - a[1]) - (c[1] - a[1]) * (b[0] - a[0])     # >0: mid point left of chord a->c
            cen = {cc: np.mean([[v.x, v.y] for v in frame.cells[cc].vertices], axis=0) for cc in oc}
            side = {cc: (c[0] - a[0]) * (cen[cc][1] - a[1]) - (c[1] - a[1]) * (cen[cc][0] - a[0]) for cc in oc}
            # the centre of curvature is on the side opposite to the bulge
            centre_cell = min(oc, key=lambda cc: side[cc]) if bulge > 0 else max(oc, key=lambda cc: side[cc])
            coef = row[kept_cols.index(cells.index(centre_cell))]
            if coef * np.sign(rhs[rix]) * np.sign(tens[i]) != 1.0:
                ck.fail("(pressure of the cell on the side of the centre of curvature) - (pressure of the other cell) = tension x total turning",
                        f"interface {i} ({len(ids)} points): coefficient of the centre-side cell {coef}, rhs {rhs[rix]}, tension {tens[i]}", case)
                break
        if abs(rhs[rix] - tens[i] * curv[i]) > 1e-12 * abs(rhs[rix]) + 1e-200:
            ck.fail("right-hand side = interface tension x total turning", f"interface {i}", case); break
    # ---------------- S: solution
    pk = np.array([press[j] for j in kept_cols])
    if any(press[j] != 0.0 for j in removed):
        ck.fail("pressures are zero for cells touching no internal interface", f"{[press[j] for j in removed][:4]}", case)
    scale = float(np.max(np.abs(rhs))) + 1e-12
    # connectivity of the cells that have an internal interface (the premise of the least-squares clauses)
    adj = {j: set() for j in range(len(kept_cols))}
    if any(len(np.nonzero(row)[0]) != 2 for row in L):
        ck.fail("each equation is (pressure of one adjacent cell) - (pressure of the other)",
                f"rows with other than two coefficients: {[int(len(np.nonzero(row)[0])) for row in L][:12]}", case)
        ck.case(case); return
    for row in L:
        a, b = np.nonzero(row)[0]
        adj[a].add(b); adj[b].add(a)
    seen = {0}; stack = [0]
    while stack:
        x = stack.pop()
        for y in adj[x]:
            if y not in seen:
                seen.add(y); stack.append(y)
    connected = len(seen) == len(kept_cols)
    if connected and abs(pk.sum()) > 1e-8 * (scale + 1e-3) * len(pk):
        ck.fail("the reported pressures sum to zero", f"sum {pk.sum()}", case)
    ref, *_ = np.linalg.lstsq(np.vstack([L, 1e6 * np.ones((1, L.shape[1]))]), np.concatenate([rhs, [0.0]]), rcond=None)
    # exact constrained solve through the null-space of the constraint
    Z = np.linalg.svd(np.ones((1, L.shape[1])))[2][1:].T
    yy, *_ = np.linalg.lstsq(L @ Z, rhs, rcond=None)
    ref = Z @ yy
    obj = float(np.sum((L @ pk - rhs) ** 2)); obj_ref = float(np.sum((L @ ref - rhs) ** 2))
    if connected and obj > obj_ref + 1e-9 * (scale + 1e-3) ** 2 * len(rhs):
        ck.fail("the reported pressures are the least-squares solution of the equations that sums to zero", f"objective {obj} vs reference {obj_ref}", case)
    if connected:
        sv = np.linalg.svd(L @ Z, compute_uv=False)
        if sv[-1] > 1e-6 * sv[0] and np.max(np.abs(pk - ref)) > 1e-6 * (scale + 1e-3) / sv[-1]:
            ck.fail("the reported pressures are the (unique) zero-sum least-squares solution when the interfaces link all cells",
                    f"max deviation {np.max(np.abs(pk - ref))}", case)
        ck.count("connected_tissues")
    else:
        ck.count("disconnected_cell_graph")
    # linearity in the tensions
    cfac = 3.5
    for be in frame.big_edges.values():
        be.tension = be.tension * cfac
    pm2, press2 = solve()
    if connected and np.max(np.abs(np.array(press2) - cfac * np.array(press))) > 1e-8 * cfac * (np.max(np.abs(press)) + 1e-3):
        ck.fail("pressures scale linearly with the tensions", f"max deviation {np.max(np.abs(np.array(press2) - cfac * np.array(press)))}", case)
    for be in frame.big_edges.values():
        be.tension = be.tension / cfac
    # correlation with the analytic Young-Laplace pressures (numerical clause)
    minpts = min(len(obs["earr"][i]) for i in internal)
    if not tension_wellposed:
        ck.count("correlation_skipped_tension_system_underdetermined")
    if sc.mob is not None and case["tensions"] in ("inferred", "maxwell") and minpts >= 5 and case.get("subset") is None and len(kept_cols) >= 6 \
            and tension_wellposed:
        pa, used = analytic_pressures(sc, frame, obs, internal)
        pi = np.array(press)[used]; pa = pa[used]
        if np.std(pi) > 0 and np.std(pa) > 0:
            corr = float(np.corrcoef(pi, pa)[0, 1])
            ck.dist["min_correlation"] = min(ck.dist.get("min_correlation", 1.0), corr)
            ck.count("correlation_checked")
            if corr < 0.9:
                # finding KF5: the right-hand side is tension x *turning* (not curvature); when the internal interfaces differ
                # strongly in length the inferred pressures correlate with the Young-Laplace ones only at 0.75..0.9
                Ls = [sum(math.hypot(frame.vertices[a].x - frame.vertices[b].x, frame.vertices[a].y - frame.vertices[b].y)
                          for a, b in zip(obs["earr"][i], obs["earr"][i][1:])) for i in internal]
                ratio = max(Ls) / min(Ls)
                sig = "weak-pressure-correlation-unequal-interface-lengths" if (corr >= 0.75 and ratio >= 8.0) else None
                ck.fail("on equilibrium tissues with >=5 points per interface the pressures correlate at 0.9 or better with the analytic Young-Laplace pressures",
                        f"correlation {corr:.4f} ({len(used)} cells, tensions {case['tensions']}, longest/shortest interface {ratio:.1f})", case, signature=sig)
    # ---------------- K
    reqs.append({"op": "pmatrix", "mesh": mesh_json(frame.vertices, frame.edges, frame.cells), "tension": [rat(t) for t in tens], "curv": [rat(c) for c in curv]})
    pending.append(("pm", case, (L, rhs, removed, [int(c) for c in cells], internal, [len(obs["earr"][i]) for i in internal],
                                 [len(frame.big_edges[i].own_cells) for i in internal])))
    if connected:
        reqs.append({"op": "pressure_cert", "L": [[rat(v) for v in row] for row in L], "r": [rat(v) for v in rhs], "p": [rat(v) for v in pk]})
        pending.append(("cert", case, scale))
    reqs.append({"op": "reinsert", "n": ncell, "removed": removed, "sol": [rat(v) for v in pk]})
    pending.append(("reinsert", case, press))
    ck.case(case, nontrivial=True, sample=({"case": case, "cells": ncell, "equations": len(internal), "removed_columns": removed[:6]} if len(ck.samples) < 4 else None))
    ck.count("tissues"); ck.count("tensions_" + case["tensions"]); ck.count("cells_without_interface", len(removed))
    return sc


def run(ck):
    ck.rule = ("(a) single interfaces: uniformly and randomly sampled circular arcs (3..17 points, turning angle up to 1.5 rad, radii 1e-2..1e2, "
               "either direction) and straight polylines with random spacing; (b) Moebius-image equilibrium tissues and straight tissues, "
               "sub-tissues with cells lacking internal interfaces, cells stored clockwise / counter-clockwise / mixed, Maxwell, random or "
               "inferred tensions. Non-trivial = every case; distinct = parameters")
    ck.assumptions = ["`**1.5`, sqrt and the float sums of calculate_total_curvature are trusted IEEE steps (compared at 1e-9 relative)",
                      "numpy.linalg.inv of the bordered normal equations is an external kernel certified per run",
                      "NOT proved, checked numerically only: '(n-2)/(n-1) theta within 3 %' and 'correlation >= 0.9'"]
    cases = [ck.replaying["case"]] if ck.replaying else gen_cases(ck)
    reqs, pending, keep = [], [], []
    for case in cases:
        fn = run_tissue if case["type"] == "tissue" else run_arc
        keep.append(ck.guard(case, fn, ck, case, reqs, pending))
    resps = ck.driver(reqs)
    for (kind, case, *rest), resp in zip(pending, resps):
        if kind == "curv":
            kap, tot = rest
            mk, mt = total_from_parts(resp)
            # curvature has units 1/length: compare kappa * (polyline length); straight lines give rounding noise only
            plen = math.fsum(math.sqrt(float(unrat(x))) for x in resp["segSq"])
            if len(mk) != len(kap) or max(abs(a - b) for a, b in zip(mk, kap)) * plen > 1e-9 * (max(abs(x) for x in kap) * plen + 1.0):
                ck.disagree("curvature", f"model {mk[:3]} impl {kap[:3]}", case)
            if abs(mt - tot) > 1e-9 * (abs(tot) + 1.0):
                ck.disagree("total curvature", f"model {mt} impl {tot}", case)
        elif kind == "pm":
            L, rhs, removed, cells, internal, npts, nown = rest[0]
            if resp["internal"] != internal or resp["removed"] != removed or resp["mappingOrder"] != cells:
                ck.disagree("pressure system layout", f"removed model {resp['removed']} impl {removed}", case); continue
            if resp["ownCellCounts"] != nown:
                ck.disagree("own cells per internal interface", f"model {resp['ownCellCounts'][:12]} impl {nown[:12]}", case); continue
            mL = np.array([[float(unrat(v)) for v in row] for row in resp["lhs"]]) if resp["lhs"] else np.zeros((0, 0))
            mr = np.array([float(unrat(v)) for v in resp["rhs"]])
            for k in range(len(internal)):
                same = mL.shape == L.shape and np.all(mL[k] == L[k])
                neg = mL.shape == L.shape and np.all(mL[k] == -L[k])
                if not (same or (neg and npts[k] == 2 and mr[k] == 0)):
                    ck.disagree("lhs row", f"equation {k}: model {mL[k].tolist() if mL.shape == L.shape else mL.shape} impl {L[k].tolist()}", case); break
                if abs(mr[k] - rhs[k]) > 1e-12 * abs(rhs[k]) + 1e-200:
                    ck.disagree("rhs", f"equation {k}: model {mr[k]} impl {rhs[k]}", case); break
        elif kind == "cert":
            scale = rest[0]
            gmax, gmin, sm = float(unrat(resp["gradMax"])), float(unrat(resp["gradMin"])), float(unrat(resp["sum"]))
            if not resp["shaped"] or gmax - gmin > 1e-8 * (scale + 1e-3) or abs(sm) > 1e-8 * (scale + 1e-3):
                ck.disagree("certificate of the constrained least-squares solution", f"gradient spread {gmax - gmin}, sum {sm} (scale {scale})", case)
        else:
            press = rest[0]
            if [float(unrat(v)) for v in resp["res"]] != [float(v) for v in press]:
                ck.disagree("zero re-insertion", "model differs", case)
