"""C10 — results are a pure function of frame data and the last call's arguments.

A random sequence (length <= 12) of build_force_matrix / solve_stress / build_pressure_matrix / solve_pressure /
get_system_velocity_per_frame is applied to one ForSys object (the "history" object).  For every frame:
S: (a) the clauses about where results are stored are evaluated on the history object; (b) the reported tensions, tension
   table, stored tensions and pressures are compared with *fresh* objects on which only the minimal chain of calls was made
   (the last solve with the build options in force at that moment; for pressures the pressure matrix in force and the solve
   that preceded its construction).
K: the Lean session machine (`run`, Model/Session.lean) is driven with the same operation sequence and with kernels
   tabulated from the fresh objects; its final state (per-edge tensions, interface tensions, reported forces, pressures,
   per-frame stores) is compared with the history object's.
"""
import math
import numpy as np

import impl
import series as ser
import statics
from dump import rat, unrat

import forsys as fs

SIG_FIX = "history-contains-failed-fix_stress"
TOL = 1e-9


def gen_cases(ck):
    cases = ck.corpus_cases()
    n = 30 if ck.tier == "quick" else 200
    for i in range(n):
        cases.append({"type": "history", "seed": int(ck.rng.integers(1 << 30)), "tissue": ["random", "jitter", "hex"][int(ck.rng.integers(3))],
                      "sites": int(ck.rng.integers(12, 22)), "subset": [None, 0.35, 0.6, 0.45][i % 4], "min_ridge": 0.02, "mobius": bool(ck.rng.integers(2)),
                      "kmin": 1, "kmax": 4, "angle": float(ck.rng.uniform(0, 6.28)), "scale": float(10.0 ** ck.rng.uniform(-1, 1)),
                      "nframes": int(ck.rng.integers(2, 4)), "field": "random", "bound_factor": 0.3, "renumber": False,
                      "times": "unequal", "nops": int(ck.rng.integers(4, 13)), "fix_stress": bool(ck.rng.integers(8) == 0)})
    return cases


BUILDS = [{}, {"angle_limit": 0.7 * math.pi}, {"angle_limit": 0.8 * math.pi, "circle_fit_method": "taubinSVD"}, {"circle_fit_method": "taubinSVD"},
          {"angle_limit": math.inf}]
SOLVES = [{}, {"allow_negatives": False}, {"b_matrix": "velocity"}, {"b_matrix": "velocity", "adimensional_velocity": True},
          {"method": "lsq"}, {"method": "lsq_linear"}, {"method": "lsq", "b_matrix": "velocity"}]
DEFAULT_BUILD = 4    # what get_system_velocity_per_frame uses: angle_limit=inf, default fit


def make_ops(rng, nframes, nops, with_fix):
    ops = []
    built, pbuilt = set(), set()
    for _ in range(nops):
        t = int(rng.integers(nframes))
        r = rng.random()
        if t not in built or r < 0.25:
            ops.append(["build", t, int(rng.integers(len(BUILDS)))]); built.add(t)
        elif r < 0.6:
            ops.append(["solve", t, int(rng.integers(len(SOLVES)))])
        elif r < 0.72:
            ops.append(["pbuild", t]); pbuilt.add(t)
            if rng.random() < 0.6:
                ops.append(["psolve", t, 0])
        elif r < 0.86 and t in pbuilt:
            ops.append(["psolve", t, 0])
        elif r < 0.93:
            ops.append(["sysvel", list(range(nframes))]); built |= set(range(nframes))
        else:
            ops.append(["solve", t, int(rng.integers(len(SOLVES)))])
    if with_fix:
        k = int(rng.integers(len(ops)))
        t = ops[k][1] if ops[k][0] != "sysvel" else 0
        if t in built:
            ops.insert(k + 1, ["fix", t])
    return ops


def fresh_forsys(case):
    s = ser.build_tracking_series(case)
    if s is None:
        return None
    frames = {}
    for t, sc in enumerate(s.frames_sc):
        sc.frame = impl.make_frame(sc.bm, frame_id=t, time=s.times[t])
        frames[t] = sc.frame
    return impl.quiet(fs.ForSys, frames, cm=False), frames, s


def apply(f, op):
    np.seterr(all="raise")
    k = op[0]
    if k == "build":
        impl.quiet(f.build_force_matrix, when=op[1], **BUILDS[op[2]])
    elif k == "solve":
        impl.quiet(f.solve_stress, when=op[1], **SOLVES[op[2]])
    elif k == "pbuild":
        impl.quiet(f.build_pressure_matrix, when=op[1])
    elif k == "psolve":
        impl.quiet(f.solve_pressure, when=op[1], method="lagrange_pressure")
    elif k == "sysvel":
        impl.quiet(f.get_system_velocity_per_frame)
    elif k == "fix":
        try:
            impl.quiet(f.solve_stress, when=op[1], method="fix_stress")
        except Exception:
            pass


def observe(f, frames, t):
    fr = frames[t]
    obs = {"forces": None if f.forces.get(t) is None else [float(f.forces[t][i]) for i in range(len(f.forces[t]))],
           "frame_forces": None if getattr(fr, "forces", None) is None else [float(fr.forces[i]) for i in range(len(fr.forces))],
           "beT": [float(fr.big_edges[i].tension) for i in range(len(fr.big_edges_list))],
           "edgeT": {int(k): float(e.tension) for k, e in fr.edges.items()},
           "table": [(int(a), float(b)) for a, b in zip(impl.quiet(fr.get_tensions)["id"].tolist(), impl.quiet(fr.get_tensions)["stress"].tolist())],
           "cellP": [None if c.pressure is None else float(c.pressure) for c in fr.cells.values()],
           "storeP": None if not isinstance(f.pressures, dict) or f.pressures.get(t) is None else [float(x) for x in f.pressures[t]]}
    return obs


def close(a, b):
    if a is None or b is None:
        return a is None and b is None
    if isinstance(a, dict):
        return a.keys() == b.keys() and all(close(a[k], b[k]) for k in a)
    if isinstance(a, (list, tuple)):
        return len(a) == len(b) and all(close(x, y) for x, y in zip(a, b))
    return abs(a - b) <= TOL * (abs(a) + abs(b) + 1.0)


def run_case(ck, case, reqs, pending):
    rng = np.random.default_rng(case["seed"] + 31)
    built = fresh_forsys(case)
    if built is None:
        ck.count("rejected_tissue"); return
    f, frames, s = built
    n = case["nframes"]
    if any(f.mesh.mapping[t] is None for t in range(n - 1)):
        ck.count("rejected_different_tissue"); return
    if any(len(frames[t].internal_big_edges) == 0 for t in range(n)):
        ck.count("rejected_no_internal_interface"); return
    ops = case["ops"] if case.get("ops") else make_ops(rng, n, case["nops"], case.get("fix_stress", False))
    case = dict(case, ops=ops)
    for k, op in enumerate(ops):
        try:
            apply(f, op)
        except Exception as ex:
            if any(o[0] == "fix" and o[1] == op[1] for o in ops[:k] if o[0] != "sysvel"):
                ck.fail("a frame can be solved again after an earlier call with another back-end",
                        f"op {k} {op} raises {type(ex).__name__} after a failed fix_stress call on the same frame", case, signature=SIG_FIX)
                ck.case(case)
                return
            raise
    ck.count("ops", len(ops))
    for k in {o[0] for o in ops}:
        ck.count("op_" + k, sum(1 for o in ops if o[0] == k))
    used_tab, solve_tab, press_tab = {}, {}, []
    for t in range(n):
        fr = frames[t]
        obs = observe(f, frames, t)
        internal = [int(be.big_edge_id) for be in fr.internal_big_edges]
        tainted = any(o[0] == "fix" and o[1] == t for o in ops)
        sig = SIG_FIX if tainted else None
        # indices of the relevant operations
        def build_in_force(upto):
            b = None
            for o in ops[:upto]:
                if o[0] == "build" and o[1] == t:
                    b = o[2]
                elif o[0] == "sysvel":
                    b = DEFAULT_BUILD
            return b
        solves = [i for i, o in enumerate(ops) if o[0] == "solve" and o[1] == t]
        psolves = [i for i, o in enumerate(ops) if o[0] == "psolve" and o[1] == t]
        # ---------------- S (a): where results are stored
        if solves:
            # the interfaces used by the last solve: those of the build options in force at that moment
            hh, hhframes, _ = fresh_forsys(case)
            apply(hh, ["build", t, build_in_force(solves[-1])])
            usedl = [[int(x) for x in e] for e in hh.force_matrices[t].big_edges_to_use]
            if obs["forces"] is None or obs["forces"] != obs["frame_forces"] or len(obs["forces"]) != len(internal):
                ck.fail("the per-frame store and the frame hold the reported tensions, one per internal interface", f"frame {t}", case, signature=sig)
            else:
                for k, i in enumerate(internal):
                    ids = [int(x) for x in fr.big_edges_list[i]]
                    if ids in usedl:
                        vals = [obs["forces"][k], obs["beT"][i]] + [obs["edgeT"][int(e)] for e in fr.big_edges[i].edges]
                        if max(vals) - min(vals) > TOL * (abs(vals[0]) + 1):
                            ck.fail("the i-th reported tension equals the tension stored on the i-th internal interface and on each of its mesh edges",
                                    f"frame {t} interface {i}: {vals[:4]}", case, signature=sig); break
                    elif obs["forces"][k] != -1:
                        ck.fail("excluded interfaces are reported as -1 at their own position", f"frame {t} interface {i}: {obs['forces'][k]}", case, signature=sig); break
            ext = [i for i in range(len(fr.big_edges_list)) if i not in internal]
            if any(obs["beT"][i] != 0 for i in ext):
                ck.fail("external interfaces stay at zero", f"frame {t}", case, signature=sig)
            if [a for a, _ in obs["table"]] != internal:
                ck.fail("the tension table lists exactly the internal interfaces in order", f"frame {t}", case, signature=sig)
        if psolves:
            pm = f.pressure_matrices[t]
            if obs["storeP"] is None or any(c is None for c in obs["cellP"]) or len(obs["storeP"]) != len(obs["cellP"]) or \
                    not close([obs["storeP"][pm.mapping_order[cid]] for cid in fr.cells], obs["cellP"]):
                ck.fail("each cell carries its own pressure and the per-frame store holds frame t's pressures under key t", f"frame {t}", case, signature=sig)
            else:
                # "its own": cells without an equation carry 0, the others the zero-sum least-squares solution of the pressure
                # equations in force, recomputed here from the assembled system (column j of the reduced system = j-th cell that has one)
                L = np.array(pm.lhs_matrix, dtype=float); rhs = np.array(pm.rhs_matrix, dtype=float).flatten()
                removed = {int(x) for x in pm.removed_columns}
                cp = obs["cellP"]
                keptc = [j for j in range(len(cp)) if j not in removed]
                if any(cp[j] != 0.0 for j in removed):
                    ck.fail("each cell carries its own pressure (zero for a cell without an equation)", f"frame {t}: {[cp[j] for j in sorted(removed)][:4]}", case, signature=sig)
                elif L.ndim == 2 and L.shape[1] == len(keptc) and L.shape[1] > 1 and L.shape[0] > 0:
                    Z = np.linalg.svd(np.ones((1, L.shape[1])))[2][1:].T
                    yy, *_ = np.linalg.lstsq(L @ Z, rhs, rcond=None)
                    refp = Z @ yy
                    sv = np.linalg.svd(L @ Z, compute_uv=False)
                    pk = np.array([cp[j] for j in keptc])
                    scale = float(np.max(np.abs(rhs))) + 1e-3
                    if sv[-1] > 1e-6 * sv[0] and float(np.max(np.abs(pk - refp))) > 1e-6 * scale / sv[-1]:
                        ck.fail("each cell carries its own pressure (the solution component of its own column)",
                                f"frame {t}: max deviation {float(np.max(np.abs(pk - refp))):.3g} from an independent solve of the assembled pressure system; "
                                f"{len(removed)} cells without equation", case, signature=sig)
                    ck.count("own_pressure_checked_against_independent_solve")
                    ck.count("cells_without_equation", len(removed))
        # ---------------- S (b): fresh objects with the minimal chain
        if solves:
            j = solves[-1]
            b = build_in_force(j)
            g, gframes, _ = fresh_forsys(case)
            apply(g, ["build", t, b]); apply(g, ops[j])
            ref = observe(g, gframes, t)
            for key in ("forces", "beT", "edgeT", "table"):
                if not close(obs[key], ref[key]):
                    ck.fail("solving other frames first, re-solving or earlier solves with other options never change what is reported for a frame",
                            f"frame {t}: {key} differs from a fresh object solved once with build {BUILDS[b]} and solve {SOLVES[ops[j][2]]}", case, signature=sig)
                    break
            gm = g.force_matrices[t]
            # kernel tables for the model: every (build, solve) pair that occurs for this frame, from fresh objects
            for i in solves:
                bb = build_in_force(i)
                key = (t, bb, ops[i][2])
                if key not in solve_tab:
                    h, hframes, _ = fresh_forsys(case)
                    apply(h, ["build", t, bb]); apply(h, ops[i])
                    hm = h.force_matrices[t]
                    hu = [hframes[t].big_edges_list.index(e) for e in hm.big_edges_to_use]
                    used_tab[(t, bb)] = hu
                    x = [float(v) for v in h.forces[t].values() if v != -1] if False else None
                    raw = hm._verif["xres_raw"][:-1] if hasattr(hm, "_verif") else None
                    solve_tab[key] = [float(v) for v in raw[:len(hu)]]
        for tb in {(t, build_in_force(i)) for i in range(len(ops) + 1) if build_in_force(i) is not None}:
            if tb not in used_tab:
                h, hframes, _ = fresh_forsys(case)
                apply(h, ["build", t, tb[1]])
                used_tab[tb] = [hframes[t].big_edges_list.index(e) for e in h.force_matrices[t].big_edges_to_use]
        if psolves:
            q = psolves[-1]
            pb = [i for i, o in enumerate(ops[:q]) if o[0] == "pbuild" and o[1] == t]
            if pb:
                r = pb[-1]
                prev = [i for i in solves if i < r]
                g, gframes, _ = fresh_forsys(case)
                if prev:
                    apply(g, ["build", t, build_in_force(prev[-1])]); apply(g, ops[prev[-1]])
                apply(g, ["pbuild", t]); apply(g, ["psolve", t, 0])
                ref = observe(g, gframes, t)
                if not close(obs["cellP"], ref["cellP"]) or not close(obs["storeP"], ref["storeP"]):
                    ck.fail("pressures reported for a frame depend only on the tensions captured by its pressure matrix and the last solve_pressure",
                            f"frame {t}: pressures differ from a fresh object", case, signature=sig)
                press_tab.append([t, [rat(x) for x in ref["beT"]], 0, [rat(x) for x in ref["cellP"]]])
            # every pbuild/psolve pair that occurs (for the model)
            for qq in psolves[:-1]:
                pbq = [i for i, o in enumerate(ops[:qq]) if o[0] == "pbuild" and o[1] == t]
                if pbq:
                    prev = [i for i in solves if i < pbq[-1]]
                    g, gframes, _ = fresh_forsys(case)
                    if prev:
                        apply(g, ["build", t, build_in_force(prev[-1])]); apply(g, ops[prev[-1]])
                    apply(g, ["pbuild", t]); apply(g, ["psolve", t, 0])
                    ref = observe(g, gframes, t)
                    press_tab.append([t, [rat(x) for x in ref["beT"]], 0, [rat(x) for x in ref["cellP"]]])
    # ---------------- K: the Lean session machine with the tabulated kernels
    if not any(o[0] == "fix" for o in ops):
        frs = []
        for t in range(n):
            fr = frames[t]
            eids = list(fr.edges.keys())
            pos = {int(e): i for i, e in enumerate(eids)}
            frs.append({"edgesOf": [[pos[int(e)] for e in fr.big_edges[i].edges] for i in range(len(fr.big_edges_list))],
                        "internal": [int(be.big_edge_id) for be in fr.internal_big_edges], "nEdges": len(eids), "nCells": len(fr.cells)})
        mops = []
        for o in ops:
            mops.append([o[0], o[1]] + ([o[2]] if len(o) > 2 else []) if o[0] != "sysvel" else ["sysvel", o[1]])
        reqs.append({"op": "session", "frames": frs, "used": [[t, b, u] for (t, b), u in used_tab.items()],
                     "solve": [[t, b, o, [rat(v) for v in x]] for (t, b, o), x in solve_tab.items()], "press": press_tab,
                     "defaultBuild": DEFAULT_BUILD, "ops": mops})
        final = []
        for t in range(n):
            fr = frames[t]
            o = observe(f, frames, t)
            final.append({"edgeT": [o["edgeT"][int(e)] for e in fr.edges.keys()], "beT": o["beT"], "forces": o["forces"], "cellP": o["cellP"] if any(c is not None for c in o["cellP"]) else None,
                          "storeP": o["storeP"]})
        pending.append((case, final))
    else:
        ck.count("histories_with_fix_stress")
    ck.case(case, nontrivial=True, sample=({"case": {k: v for k, v in case.items() if k != "ops"}, "ops": ops} if len(ck.samples) < 3 else None))
    return f, frames, s


def run(ck):
    ck.rule = ("2..3-frame series of Voronoi/Moebius tissues; random operation sequences of length 4..13 over build_force_matrix (5 option sets: "
               "default, two angle limits, taubinSVD, inf), solve_stress (7 option sets: default, allow_negatives off, velocity, adimensional "
               "velocity, lsq, lsq_linear, lsq+velocity), build_pressure_matrix, solve_pressure, get_system_velocity_per_frame, in any frame "
               "order; one history in eight also contains a (failing) fix_stress call. Non-trivial = every history; distinct = parameters")
    ck.assumptions = ["the numeric kernels are deterministic: a fresh object given the same calls reproduces them (compared at 1e-9)",
                      "the pressure matrix captures the interface tensions when it is built (as the code's docstring requires it to be built after the stress solve)"]
    cases = [ck.replaying["case"]] if ck.replaying else gen_cases(ck)
    reqs, pending, keep = [], [], []
    for case in cases:
        keep.append(ck.guard(case, run_case, ck, case, reqs, pending))
    resps = ck.driver(reqs)
    for (case, final), resp in zip(pending, resps):
        for t, want in enumerate(final):
            m = resp["frames"][t]
            got = {"edgeT": [float(unrat(v)) for v in m["edgeT"]], "beT": [float(unrat(v)) for v in m["beT"]],
                   "forces": None if m["forces"] is None else [float(unrat(v)) for v in m["forces"]],
                   "cellP": None if m["cellP"] is None else [float(unrat(v)) for v in m["cellP"]]}
            sf = resp["storeForces"][t]; sp = resp["storePress"][t]
            for key in ("edgeT", "beT", "forces", "cellP"):
                if not close(got[key], want[key]):
                    ck.disagree("session machine: " + key, f"frame {t}: model {str(got[key])[:120]} impl {str(want[key])[:120]}", case); break
            if not close(None if sf is None else [float(unrat(v)) for v in sf], want["forces"]):
                ck.disagree("session machine: ForSys.forces", f"frame {t}", case)
            if not close(None if sp is None else [float(unrat(v)) for v in sp], want["storeP"]):
                ck.disagree("session machine: ForSys.pressures", f"frame {t}", case)
