"""C19 — tessellation lattices match the Voronoi diagram of the given centres.

K (correspondence): the three dictionaries of tessellation.create_lattice_elements, the lattice of create_lattice
    (or its AssertionError), remove_infinite_regions, line_eq, get_vertex_number, get_enum of the real code vs. the Lean
    model run on Qhull's actual output (Voronoi.vertices / Voronoi.regions as observed here) — exact.
S (property oracle on the real code): independent computation from scipy.spatial.Voronoi — one cell per bounded region
    whose diameter is below the cut-off, corner points rounded to 3 decimals (decimal module, not numpy) as its cycle up
    to rotation/reversal, both regions of a ridge share the two vertex objects and exactly one mesh edge, one rotational
    sense (Cell.get_area_sign), mesh consistency (Lean `Mesh.Consistent` on dump.mesh_json, and in Python).
"""
import math
from copy import deepcopy
from decimal import Decimal, ROUND_HALF_EVEN
from fractions import Fraction

import numpy as np
import scipy.spatial as sps

from dump import rat, unrat, mesh_json

import forsys.tessellation as T

SIG_COINCIDE = "rounded-corners-coincide"
SPACINGS = [1.0, 3.7, 10.0, 12.5, 25.0, 40.0]


# ------------------------------------------------------------------------------------------------ inputs
def lattice_dims(n):
    """m x k grid with about n points, both sides >= 2"""
    m = max(2, int(round(math.sqrt(n))))
    k = max(2, int(round(n / m)))
    return m, k


def centres_of(case):
    rng = np.random.default_rng(case["seed"])
    n, s, kind = case["n"], case["spacing"], case["kind"]
    ox, oy = case.get("ox", 0.0), case.get("oy", 0.0)
    if kind == "random":
        pts = rng.random((n, 2)) * (s * math.sqrt(n))
        pts = pts + np.array([ox, oy])
    else:
        m, k = case.get("m"), case.get("k")
        if m is None:
            m, k = lattice_dims(n)
        if kind in ("square", "jitter_square"):
            g = np.array([(ox + i * s, oy + j * s) for i in range(m) for j in range(k)], dtype=float)
        elif kind == "rect345":   # 3s x 4s rectangles: the diameter of every bounded region is exactly 5s
            g = np.array([(ox + 3 * s * i, oy + 4 * s * j) for i in range(m) for j in range(k)], dtype=float)
        else:
            g = np.array([(ox + i * s * math.sqrt(3) / 2, oy + (j + 0.5 * (i % 2)) * s) for i in range(m) for j in range(k)], dtype=float)
        if kind.startswith("jitter"):
            g = g + (rng.random(g.shape) - 0.5) * 2 * case["amp"] * s
        pts = g
    pts = [(float(x), float(y)) for x, y in pts]
    if case.get("ring"):
        pts = pts + [(float(x), float(y)) for x, y in T.add_voronoi_centers(pts)]
    return pts


def dec_round3(x):
    """independent 3-decimal rounding (decimal arithmetic on the exact value of the float)"""
    return float(Decimal(float(x)).quantize(Decimal("0.001"), rounding=ROUND_HALF_EVEN))


def near_tie(x):
    t = Fraction(float(x)) * 1000
    fr = t - math.floor(t)
    return abs(fr - Fraction(1, 2)) < Fraction(1, 10 ** 6)


def diameter(P):
    d = 0.0
    for i in range(len(P)):
        for j in range(i + 1, len(P)):
            d = max(d, math.hypot(P[i][0] - P[j][0], P[i][1] - P[j][1]))
    return d


def canon_cycle(seq):
    """canonical representative of a cyclic sequence up to rotation and reversal"""
    seq = list(seq)
    n = len(seq)
    if n == 0:
        return ()
    best = None
    for s in (seq, seq[::-1]):
        for r in range(n):
            c = tuple(s[r:] + s[:r])
            if best is None or c < best:
                best = c
    return best


def cut_off(case, diams):
    """max_distance of the case: default / infinite / tight (between two region diameters)"""
    md = case["md"]
    if md == "exact5":
        return 5.0 * case["spacing"]
    if md == "default":
        return 75.0
    if md == "inf":
        return float("inf")
    ds = sorted(diams)
    if not ds:
        return 75.0
    k = min(len(ds) - 1, max(1, int(len(ds) * float(md))))
    lo, hi = ds[k - 1], ds[k]
    if hi - lo > 1e-6 * hi:
        return 0.5 * (lo + hi)
    return hi * (1.05 if case["seed"] % 2 else 0.95)


# ------------------------------------------------------------------------------------------------ one case
def expected_regions(vor, md):
    """(region index, corner coordinates) of the bounded regions with diameter <= cut-off, independent of the code"""
    out = []
    margin = []
    for ri, reg in enumerate(vor.regions):
        if len(reg) == 0 or -1 in reg:
            continue
        P = [tuple(vor.vertices[v]) for v in reg]
        d = diameter(P)
        margin.append(abs(d - md) / md if math.isfinite(md) else 1.0)
        if d > md:
            continue
        out.append((ri, reg, P))
    return out, (min(margin) if margin else 1.0)


def exact_area(pts):
    f = [(Fraction(x), Fraction(y)) for x, y in pts]
    n = len(f)
    return sum(f[i][0] * f[(i + 1) % n][1] - f[(i + 1) % n][0] * f[i][1] for i in range(n)) / 2


def python_consistent(V, E, C):
    """the clauses of mesh consistency, evaluated directly on the objects"""
    bad = []
    for k, v in V.items():
        if v.id != k:
            bad.append("vkey")
        ends = sorted(e.id for e in E.values() if v.id in (e.v1.id, e.v2.id))
        if sorted(v.ownEdges) != ends:
            bad.append("ownEdges")
        inc = sorted(c.id for c in C.values() if any(x.id == v.id for x in c.vertices))
        if sorted(v.ownCells) != inc:
            bad.append("ownCells")
    for k, e in E.items():
        if e.id != k or V.get(e.v1.id) is not e.v1 or V.get(e.v2.id) is not e.v2 or e.v1.id == e.v2.id:
            bad.append("edge")
    joined = set(frozenset((e.v1.id, e.v2.id)) for e in E.values())
    for k, c in C.items():
        ids = [x.id for x in c.vertices]
        if c.id != k or any(V.get(x.id) is not x for x in c.vertices):
            bad.append("cell")
        if len(set(ids)) != len(ids):
            bad.append("cellsNodup")
        if any(frozenset(p) not in joined for p in zip(ids, ids[1:] + ids[:1])):
            bad.append("cyclesJoined")
    return sorted(set(bad))


def run_case(ck, case, reqs, pending, keep):
    pts = centres_of(case)
    if len(set(pts)) < 4:
        ck.count("rejected_too_few_points")
        return
    vor = sps.Voronoi(pts)
    diams = [diameter([tuple(vor.vertices[v]) for v in reg]) for reg in vor.regions if len(reg) and -1 not in reg]
    md = cut_off(case, diams)
    exp, margin = expected_regions(vor, md)
    used = sorted({v for reg in vor.regions if len(reg) and -1 not in reg for v in reg})
    if case["md"] == "exact5":
        # diameter == max_distance exactly: allowed only when Qhull's vertices are exact half-integers, so that
        # np.linalg.norm((3s, 4s)) == 5s holds exactly in float as well as in the model
        if not all(float(2 * c).is_integer() for v in used for c in vor.vertices[v]):
            ck.count("rejected_inexact_qhull_vertices")
            return
        ck.count("diameter_exactly_at_cutoff")
    elif margin < 1e-9:
        ck.count("rejected_near_cutoff")
        return
    if any(near_tie(c) for v in used for c in vor.vertices[v]):
        ck.count("rejected_rounding_tie")
        return
    exp_cycles = []
    coincide = False
    for ri, reg, P in exp:
        R = [(dec_round3(x), dec_round3(y)) for x, y in P]
        if len(set(R)) != len(R):
            coincide = True
            # a ridge shorter than the rounding grid has no length left: the cycle of distinct corner points
            R = [q for i, q in enumerate(R) if q != R[i - 1]] if len(set(R)) > 1 else R[:1]
        exp_cycles.append(R)
    if not coincide and any(abs(exact_area(R)) < Fraction(1, 10 ** 7) for R in exp_cycles):
        ck.count("rejected_zero_area_region")
        return
    sig = SIG_COINCIDE if coincide else None
    ck.count("kind_" + case["kind"]); ck.count("ring" if case.get("ring") else "no_ring"); ck.count("md_" + str(case["md"]))
    ck.count("points", len(pts)); ck.count("expected_cells", len(exp))
    ck.count("bounded_regions_cut_off", len(diams) - len(exp))
    if coincide:
        ck.count("cases_with_coinciding_rounded_corners")

    # ---------------------------------------------------------------- the real code
    kw = {} if case["md"] == "default" else {"max_distance": md}
    try:
        el = T.create_lattice_elements(pts, **kw)
    except Exception as ex:   # noqa: BLE001
        ck.fail("create_lattice_elements returns the lattice dictionaries",
                f"raised {type(ex).__name__}: {ex}", case, signature=sig)
        ck.case(case, nontrivial=False)
        return
    nv, ne, nc = el
    obs_el = {"vertices": [[int(k), float(v[0]), float(v[1])] for k, v in nv.items()],
              "edges": [[int(k), int(e[0]), int(e[1])] for k, e in ne.items()],
              "cells": [[int(k), [int(x) for x in c]] for k, c in nc.items()]}
    kept_obs = T.remove_infinite_regions(vor, deepcopy(vor.regions), max_distance=md)
    kept_obs = [[int(x) for x in r] for r in kept_obs]
    err = None
    lat = None
    try:
        lat = T.create_lattice(nv, ne, nc)
        keep.append(lat)
    except AssertionError as ex:
        err = "AssertionError"
        detail = str(ex)
    except Exception as ex:   # noqa: BLE001
        err = type(ex).__name__
        detail = str(ex)

    # ---------------------------------------------------------------- S: the property on the real outputs
    nontrivial = len(exp) >= 2
    if err is not None:
        ck.fail("building a lattice from the tessellation yields a mesh", f"create_lattice raised {err}: {detail}", case, signature=sig)
        ck.count("create_lattice_raised_" + err)
    else:
        V, E, C = lat
        oracle(ck, case, vor, exp, exp_cycles, V, E, C, sig)
        reqs.append({"op": "consistent", "mesh": mesh_json(V, E, C)})
        pending.append(("consistent", case, sig))

    # ---------------------------------------------------------------- K: the model on Qhull's output
    reqs.append({"op": "c19_tess", "verts": [[rat(x), rat(y)] for x, y in vor.vertices],
                 "regions": [[int(x) for x in r] for r in vor.regions],
                 "md2": None if not math.isfinite(md) else rat(Fraction(md) ** 2)})
    pending.append(("tess", case, {"el": obs_el, "kept": kept_obs, "err": err,
                                   "mesh": mesh_json(*lat) if lat is not None else None,
                                   "signs": sorted([int(k), int(c.get_area_sign())] for k, c in lat[2].items()) if lat is not None else None}))
    ck.case(case, nontrivial=nontrivial,
            sample=({"case": case, "points": len(pts), "bounded_regions": len(diams), "expected_cells": len(exp),
                     "max_distance": md, "first_centres": pts[:3]} if len(ck.samples) < 3 and nontrivial else None))


def oracle(ck, case, vor, exp, exp_cycles, V, E, C, sig):
    coords = {vid: (float(v.x), float(v.y)) for vid, v in V.items()}
    # (1) one cell per kept region, with the rounded corner points as its cycle (up to rotation / reversal)
    got = {}
    for cid, cl in C.items():
        got.setdefault(canon_cycle([coords[v.id] for v in cl.vertices]), []).append(cid)
    want = {}
    for (ri, reg, P), R in zip(exp, exp_cycles):
        want.setdefault(canon_cycle(R), []).append(ri)
    if len(C) != len(exp):
        ck.fail("one cell for every bounded region below the cut-off", f"{len(C)} cells, {len(exp)} such regions", case, signature=sig)
    missing = [k for k in want if k not in got]
    extra = [k for k in got if k not in want]
    dup = [k for k, v in got.items() if len(v) > 1]
    if missing or extra or dup:
        ck.fail("each cell's vertex cycle is its region's corner points rounded to 3 decimals",
                f"{len(missing)} regions without cell (first {missing[:1]}), {len(extra)} cells without region (first {extra[:1]}), "
                f"{len(dup)} cycles used twice", case, signature=sig)
        return
    cell_of_region = {want[k][0]: got[k][0] for k in want}
    # (2) neighbouring regions share the vertices and the mesh edge of their common ridge
    region_of_point = vor.point_region
    pair_edges = {}
    for e in E.values():
        pair_edges.setdefault(frozenset((e.v1.id, e.v2.id)), []).append(e.id)
    nshared = 0
    for (p, q), (a, b) in zip(vor.ridge_points, vor.ridge_vertices):
        if a < 0 or b < 0:
            continue
        ra, rb = int(region_of_point[p]), int(region_of_point[q])
        if ra not in cell_of_region or rb not in cell_of_region:
            continue
        ca, cb = C[cell_of_region[ra]], C[cell_of_region[rb]]
        ends = []
        for vq in (a, b):
            w = (dec_round3(vor.vertices[vq][0]), dec_round3(vor.vertices[vq][1]))
            ia = [v for v in ca.vertices if (float(v.x), float(v.y)) == w]
            ib = [v for v in cb.vertices if (float(v.x), float(v.y)) == w]
            if len(ia) != 1 or len(ib) != 1 or ia[0] is not ib[0] or V.get(ia[0].id) is not ia[0]:
                ck.fail("neighbouring regions share the vertices of their common ridge",
                        f"regions {ra},{rb} corner {w}: {[v.id for v in ia]} vs {[v.id for v in ib]}", case, signature=sig)
                return
            ends.append(ia[0].id)
        if ends[0] == ends[1]:
            continue          # ridge shorter than the rounding grid (only with coinciding corners)
        es = pair_edges.get(frozenset(ends), [])
        ok = len(es) == 1
        for cl in (ca, cb):
            ids = [v.id for v in cl.vertices]
            i = ids.index(ends[0])
            if ends[1] not in (ids[(i + 1) % len(ids)], ids[i - 1]):
                ok = False
        if ok:
            ok = all(es[0] in V[x].ownEdges for x in ends)
        if not ok:
            ck.fail("neighbouring regions share the mesh edge of their common ridge",
                    f"regions {ra},{rb} vertices {ends}: mesh edges joining them {es}", case, signature=sig)
            return
        nshared += 1
    ck.count("shared_ridges_checked", nshared)
    # (3) one rotational sense
    signs = sorted(set(int(cl.get_area_sign()) for cl in C.values()))
    if len(signs) > 1 or 0 in signs:
        ck.fail("all cells are stored in the same rotational sense", f"area signs {signs}", case, signature=sig)
    for s in signs:
        ck.count(f"orientation_sign_{s}")
    # (4) consistency, evaluated in Python (the Lean predicate runs on the dump as well)
    bad = python_consistent(V, E, C)
    if bad:
        ck.fail("the mesh is consistent", f"failing clauses (python evaluation): {bad}", case, signature=sig)


# ------------------------------------------------------------------------------------------------ comparison
def same_rows(model_rows, obs_rows, numeric_cols):
    if len(model_rows) != len(obs_rows):
        return False
    for m, o in zip(model_rows, obs_rows):
        if len(m) != len(o):
            return False
        for i, (a, b) in enumerate(zip(m, o)):
            if i in numeric_cols:
                if float(unrat(a)) != float(unrat(b) if isinstance(b, str) else b):
                    return False
            elif a != b:
                return False
    return True


def compare_tess(ck, case, obs, resp):
    if resp["kept"] != obs["kept"]:
        ck.disagree("remove_infinite_regions", f"model keeps {len(resp['kept'])} regions, impl {len(obs['kept'])}", case)
        return
    el = obs["el"]
    if not same_rows(resp["vertices"], el["vertices"], (1, 2)):
        ck.disagree("create_lattice_elements.vertices", f"model {resp['vertices'][:3]} impl {el['vertices'][:3]} "
                    f"(sizes {len(resp['vertices'])}/{len(el['vertices'])})", case)
        return
    if resp["edges"] != el["edges"]:
        ck.disagree("create_lattice_elements.edges", f"model {resp['edges'][:4]} impl {el['edges'][:4]}", case)
        return
    if resp["cells"] != el["cells"]:
        ck.disagree("create_lattice_elements.cells", f"model {resp['cells'][:2]} impl {el['cells'][:2]}", case)
        return
    lat = resp["lattice"]
    if lat["error"] != obs["err"]:
        ck.disagree("create_lattice.error", f"model {lat['error']} impl {obs['err']}", case)
        return
    if obs["err"] is None:
        mm, om = lat["mesh"], obs["mesh"]
        if not same_rows(mm["v"], om["v"], (2, 3)):
            ck.disagree("create_lattice.vertices", f"model {mm['v'][:2]} impl {om['v'][:2]}", case)
        elif mm["e"] != om["e"]:
            ck.disagree("create_lattice.edges", f"model {mm['e'][:3]} impl {om['e'][:3]}", case)
        elif mm["c"] != om["c"]:
            ck.disagree("create_lattice.cells", f"model {mm['c'][:2]} impl {om['c'][:2]}", case)
        elif sorted(lat["signs"]) != obs["signs"]:
            ck.disagree("cell area signs", f"model {lat['signs'][:4]} impl {obs['signs'][:4]}", case)


# ------------------------------------------------------------------------------------------------ helper functions
def unit_cases(ck, reqs, pending, n):
    """line_eq / rounding / interning compared directly"""
    rng = ck.rng
    for i in range(n):
        sc = 10.0 ** int(rng.integers(-1, 3))
        p0 = rng.normal(size=2) * sc
        p1 = rng.normal(size=2) * sc
        mode = i % 4
        if mode == 1:      # exactly vertical
            p1[0] = p0[0]
        elif mode == 2:    # vertical only after rounding
            p1[0] = p0[0] + 1e-5 * (1 if i % 8 < 4 else -1)
        if any(near_tie(c) for c in list(p0) + list(p1)):
            ck.count("rejected_rounding_tie")
            continue
        x = np.around(np.linspace(round(p0[0], 3), round(p1[0], 3), 2), 3)
        try:
            ys = [float(v) for v in np.around(T.line_eq(p0, p1, x), 3)]
        except Exception as ex:   # noqa: BLE001
            ys = "raises:" + type(ex).__name__
        case = {"type": "line_eq", "p0": [float(c) for c in p0], "p1": [float(c) for c in p1]}
        r0 = (dec_round3(p0[0]), dec_round3(p0[1])); r1 = (dec_round3(p1[0]), dec_round3(p1[1]))
        want = [r0[1], r1[1]]
        if ys != want or [float(v) for v in x] != [r0[0], r1[0]]:
            ck.fail("a ridge is represented by its two corner points rounded to 3 decimals (line_eq at the rounded abscissae)",
                    f"p0={list(p0)} p1={list(p1)}: x={list(x)} y={ys}, want x={[r0[0], r1[0]]} y={want}", case)
        ck.count("line_eq_vertical" if r0[0] == r1[0] else "line_eq_sloped")
        reqs.append({"op": "c19_line_eq", "p0": [rat(c) for c in p0], "p1": [rat(c) for c in p1], "xs": [rat(v) for v in x]})
        pending.append(("line_eq", case, {"x": [float(v) for v in x], "ys": ys}))
    # interning sequences
    for i in range(max(2, n // 8)):
        k = int(rng.integers(3, 12))
        pool = [(float(np.round(rng.normal() * 10, 3)), float(np.round(rng.normal() * 10, 3))) for _ in range(k)]
        qs = [pool[int(rng.integers(0, k))] for _ in range(3 * k)]
        d = {}
        ids = [int(T.get_vertex_number((np.float64(q[0]), np.float64(q[1])), d)) for q in qs]
        reqs.append({"op": "c19_vertex_number", "dict": [], "queries": [[rat(a), rat(b)] for a, b in qs]})
        pending.append(("vnum", {"type": "vertex_number", "queries": qs}, {"ids": ids, "dict": [[int(a), float(b[0]), float(b[1])] for a, b in d.items()]}))
        eq = [[int(rng.integers(1, k + 1)), int(rng.integers(1, k + 1))] for _ in range(4 * k)]
        de = {}
        eids = [int(T.get_enum(list(q), de)) for q in eq]
        reqs.append({"op": "c19_enum", "dict": [], "queries": eq})
        pending.append(("enum", {"type": "enum", "queries": eq}, {"ids": eids, "dict": [[int(a), int(b[0]), int(b[1])] for a, b in de.items()]}))


# ------------------------------------------------------------------------------------------------ run
def gen_cases(ck):
    n = 36 if ck.tier == "quick" else 260
    kinds = ["random", "jitter_hex", "square", "hex", "jitter_square", "random", "square", "hex"]
    out = []
    for i in range(n):
        kind = kinds[i % len(kinds)]
        if ck.tier == "quick":
            npts = int(ck.rng.integers(6, 90)) if i % 9 else int(ck.rng.integers(200, 301))
        else:
            npts = int(ck.rng.integers(6, 301))
        case = {"type": "centres", "kind": kind, "seed": int(ck.rng.integers(1 << 30)), "n": npts,
                "spacing": SPACINGS[int(ck.rng.integers(0, len(SPACINGS)))],
                "ring": bool((i // 2) % 2), "md": ["default", "inf", 0.5, 0.85, "inf", 0.2][i % 6],
                "ox": float(np.round(ck.rng.normal() * 50, 2)), "oy": float(np.round(ck.rng.normal() * 50, 2))}
        if kind in ("square", "hex") and i % 3 == 0:
            case["ox"], case["oy"] = 0.0, 0.0
        if kind.startswith("jitter"):
            case["amp"] = [0.3, 0.1, 0.02, 0.25][(i // 8) % 4]
        if kind != "random":
            m = int(ck.rng.integers(2, 18))
            k = max(2, min(17, int(round(npts / m))))
            if m * k < 6:
                k = 3
            case["m"], case["k"], case["n"] = m, k, m * k
        out.append(case)
    for i in range(2 if ck.tier == "quick" else 8):
        out.append({"type": "centres", "kind": "rect345", "seed": i, "n": 0, "m": int(ck.rng.integers(3, 8)), "k": int(ck.rng.integers(3, 8)),
                    "spacing": [1.0, 2.0, 4.0, 0.5][i % 4], "ring": False, "md": "exact5", "ox": 0.0, "oy": 0.0})
    return out


def run(ck):
    ck.rule = ("centre sets of 6..300 points: uniformly random, jittered square / hexagonal lattices (jitter 2..30 % of the "
               "spacing), exactly square and exactly hexagonal m x k lattices, spacings 1..40, random offsets; with and "
               "without the ring of add_voronoi_centers; max_distance default (75), infinite, or tight (between two region "
               "diameters so that 20/50/85 % of the bounded regions survive), and 3s x 4s rectangular lattices with "
               "max_distance = 5s exactly equal to every region's diameter; plus direct calls of line_eq (sloped, exactly "
               "vertical, vertical after rounding), get_vertex_number and get_enum on random sequences. Non-trivial = at "
               "least two regions survive the cut-off; distinct = distinct generator parameters")
    ck.assumptions = ["scipy.spatial.Voronoi (Qhull) is trusted: its vertices/regions/ridge lists are the model's input and the oracle's reference",
                      "np.around/round are exact round-half-even away from ties: inputs with a used coordinate within 1e-6 of a 3-decimal tie are rejected",
                      "np.linalg.norm vs exact squared distance: inputs with a region diameter within 1e-9 relative of max_distance are rejected",
                      "float shoelace sign equals the exact sign: inputs with a region of |area| < 1e-7 after rounding are rejected",
                      "Cell.__post_init__'s circle fit (calculate_circle_center) does not raise on Voronoi polygons"]
    reqs, pending, keep = [], [], []
    if ck.replaying:
        cases = [ck.replaying["case"]]
    else:
        cases = ck.corpus_cases() + gen_cases(ck)
    for case in cases:
        if case.get("type") == "centres":
            run_case(ck, case, reqs, pending, keep)
        elif case.get("type") == "line_eq":
            pass   # replayed through unit_cases' oracle below
    if not ck.replaying:
        unit_cases(ck, reqs, pending, 40 if ck.tier == "quick" else 400)
    elif cases and cases[0].get("type") == "line_eq":
        c = cases[0]
        p0, p1 = np.array(c["p0"]), np.array(c["p1"])
        x = np.around(np.linspace(round(p0[0], 3), round(p1[0], 3), 2), 3)
        try:
            ys = [float(v) for v in np.around(T.line_eq(p0, p1, x), 3)]
        except Exception as ex:   # noqa: BLE001
            ys = "raises:" + type(ex).__name__
        if ys != [dec_round3(p0[1]), dec_round3(p1[1])]:
            ck.fail("a ridge is represented by its two corner points rounded to 3 decimals (line_eq at the rounded abscissae)",
                    f"y={ys}", c)
        ck.case(c)
    resps = ck.driver(reqs)
    for (kind, case, obs), resp in zip(pending, resps):
        if kind == "consistent":
            if not resp["ok"]:
                ck.fail("the mesh is consistent", f"failing clauses (Lean Mesh.Consistent on the dump): {resp['failing']}", case, signature=obs)
        elif kind == "tess":
            compare_tess(ck, case, obs, resp)
        elif kind == "line_eq":
            mys = [float(unrat(p[1])) for p in resp["ridge"]]
            mxs = [float(unrat(p[0])) for p in resp["ridge"]]
            if obs["ys"] != mys or obs["x"] != mxs:
                ck.disagree("line_eq", f"model x={mxs} y={mys} impl x={obs['x']} y={obs['ys']}", case)
            ck.case(case)
        elif kind == "vnum":
            if resp["ids"] != obs["ids"] or not same_rows(resp["dict"], obs["dict"], (1, 2)):
                ck.disagree("get_vertex_number", f"model {resp['ids'][:8]} impl {obs['ids'][:8]}", case)
            ck.case(case)
        elif kind == "enum":
            if resp["ids"] != obs["ids"] or resp["dict"] != obs["dict"]:
                ck.disagree("get_enum", f"model {resp['ids'][:8]} impl {obs['ids'][:8]}", case)
            ck.case(case)
