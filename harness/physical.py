"""Static inference on a generated tissue with results keyed by *physical* entities (topo ridge, topo junction, topo cell),
so that runs on relabelled / transformed / resampled versions of one tissue can be compared (C01, C03, C06, C07)."""
import math
import numpy as np

import impl
import statics

import forsys as fs
import forsys.virtual_edges as ve


class Phys:
    pass


def run_static(sc, fit="dlite", method=None, ne=None, replace=True, pressure=False, allow_negatives=True, solve=True, reset_err=True,
               prior_limit=None):
    """sc: statics.StaticCase (mesh in sc.bm).  Returns Phys or raises what the implementation raises."""
    if reset_err:
        np.seterr(all="raise")      # the state `import forsys` sets; reset_err=False keeps whatever earlier package calls left behind
    bm = sc.bm
    v, e, c = bm.vertices, bm.edges, bm.cells
    if ne is not None:
        v, e, c, _ = impl.quiet(ve.generate_mesh, v, e, c, ne=ne, replace_short_edges=replace)
        bm.vertices, bm.edges, bm.cells = v, e, c
    frame = impl.make_frame((v, e, c))
    f = fs.ForSys({0: frame})
    if prior_limit is not None:
        # the same frame was assembled before with a finite angle limit (and solved): the later default build must not depend on it
        impl.quiet(f.build_force_matrix, when=0, circle_fit_method=fit, angle_limit=prior_limit)
        try:
            impl.quiet(f.solve_stress, when=0)
        except Exception:
            pass
    impl.quiet(f.build_force_matrix, when=0, circle_fit_method=fit)
    fm = f.force_matrices[0]
    ph = Phys()
    ph.frame, ph.forsys, ph.fm = frame, f, fm
    jun = {vid: j for j, vid in bm.vid_of_junction.items() if vid in v}
    ph.jun = jun
    earr = [[int(x) for x in p] for p in frame.big_edges_list]
    internal = [int(be.big_edge_id) for be in frame.internal_big_edges]
    used = [[int(x) for x in p] for p in fm.big_edges_to_use]
    ph.earr, ph.internal, ph.used = earr, internal, used

    def ridge_of(ids):
        a, b = jun.get(ids[0]), jun.get(ids[-1])
        if a is None or b is None or frozenset((a, b)) not in sc.topo.ridges:
            return None
        return frozenset((a, b))
    ph.ridge_of = ridge_of
    ph.ridges = [ridge_of(earr[i]) for i in internal]
    ph.points = {ridge_of(earr[i]): len(earr[i]) for i in internal}
    A = np.array(fm.matrix, dtype=float)
    ph.A = A
    rowmap = {int(k): int(r) for k, r in fm.map_vid_to_row.items()}
    ph.rowmap = rowmap
    # coefficient pairs keyed physically, and the D2 flag (mirrored tangent) per coefficient
    ph.coefs = {}
    ph.d2 = set()
    for vv, r in rowmap.items():
        for col, ids in enumerate(used):
            if vv not in (ids[0], ids[-1]):
                continue
            rg = ridge_of(ids)
            ph.coefs[(jun.get(vv), rg)] = (float(A[r, col]), float(A[r + 1, col]))
            if len(ids) > 2 and rg is not None:
                other = ids[-1] if ids[0] == vv else ids[0]
                t = statics.true_direction(sc, jun[vv], jun[other], len(ids))
                nxt = ids[1] if ids[0] == vv else ids[-2]
                ch = (frame.vertices[nxt].x - frame.vertices[vv].x, frame.vertices[nxt].y - frame.vertices[vv].y)
                if (t.real > 0) != (ch[0] >= 0) or (t.imag > 0) != (ch[1] >= 0):
                    ph.d2.add((jun.get(vv), rg))
    # conditioning of the augmented problem
    if A.size:
        n = A.shape[1]
        M = np.block([[A, np.ones((A.shape[0], 1))], [np.ones((1, n)), np.zeros((1, 1))]])
        sv = np.linalg.svd(M, compute_uv=False)
        ph.sigma = (float(sv[-1]), float(sv[0]))
        ph.wellposed = M.shape[0] >= M.shape[1] and sv[-1] >= 1e-3 * sv[0]
    else:
        ph.sigma = (0.0, 0.0); ph.wellposed = False
    # Maxwell ground truth over the inferred interfaces
    taus = [sc.topo.tension(rg) if rg is not None else None for rg in ph.ridges]
    if all(t is not None for t in taus) and taus:
        mean = float(np.mean(taus))
        ph.truth = {rg: float(t) / mean for rg, t in zip(ph.ridges, taus)}
    else:
        ph.truth = None
    ph.tension = None
    ph.pressure = None
    if solve and A.size:
        kw = {"allow_negatives": allow_negatives}
        if method:
            kw["method"] = method
        impl.quiet(f.solve_stress, when=0, **kw)
        forces = frame.forces
        ph.tension = {rg: float(forces[k]) for k, rg in enumerate(ph.ridges)}
        ph.path = fm._verif["path"] if hasattr(fm, "_verif") else None
        if pressure:
            impl.quiet(f.build_pressure_matrix, when=0)
            impl.quiet(f.solve_pressure, when=0, method="lagrange_pressure")
            ph.pressure = {bm.cell_phys[cid]: float(cl.pressure) for cid, cl in frame.cells.items()}
            tab = impl.quiet(frame.get_pressures)
            ph.pressure_table = {bm.cell_phys[int(i)]: float(p_) for i, p_ in zip(tab["id"].tolist(), tab["pressure"].tolist())}
            ph.removed_cells = {bm.cell_phys[list(frame.cells.keys())[j]] for j in f.pressure_matrices[0].removed_columns}
    return ph


def coef_tolerance(sc, ph, fit):
    """largest closed-form tolerance of a coefficient of this system (same rule as C02's oracle)"""
    cs = statics.centers(sc, fit) if hasattr(sc, "frame") else None
    tol = 1e-9
    frame = ph.frame
    for ids in ph.used:
        if len(ids) == 2:
            continue
        P = np.array([[frame.vertices[i].x, frame.vertices[i].y] for i in ids])
        L = float(np.linalg.norm(P[0] - P[-1]))
        if sc.mob is None:
            tol = max(tol, 2e-3)
            continue
        xc, yc = impl.quiet(ve.calculate_circle_center, [frame.vertices[i] for i in ids], method=fit)
        R = float(np.hypot(P[0, 0] - xc, P[0, 1] - yc))
        far = float(np.max(np.abs(P))) / L
        # far from the origin the iterative dlite fit loses digits to cancellation (measured 1e-3 at 1e3 tissue sizes); the algebraic
        # taubinSVD fit centres its data and stays at about 1.5e-14 per unit of |coords| (measured up to 1e6 tissue sizes)
        tol = max(tol, 1e-6 * max(1.0, R / L / 10.0, far / 100.0 if fit == "dlite" else 0.0) + (0.0 if fit == "dlite" else 1e-13 * far))
    return tol


SIG_FIT = "dlite-fit-stops-in-a-spurious-minimum"


def unconverged_fits(frame, used, fit):
    """finding KF7: columns (positions in `used`) of interfaces whose points lie on one circle (residual of the circle through
    the first, middle and last point below 1e-9 chord lengths) while the centre returned by the code's fit leaves a residual
    above 1e-5 chord lengths — scipy's leastsq, started from the centroid, stopped in a spurious minimum of DLITE's objective"""
    bad = set()
    for col, ids in enumerate(used):
        if len(ids) < 4:
            continue
        P = np.array([[frame.vertices[i].x, frame.vertices[i].y] for i in ids], dtype=float)
        L = float(np.linalg.norm(P[0] - P[-1]))
        a, b, c = P[0], P[len(P) // 2], P[-1]
        d = 2 * (a[0] * (b[1] - c[1]) + b[0] * (c[1] - a[1]) + c[0] * (a[1] - b[1]))
        if L == 0 or abs(d) < 1e-14 * L * L:
            continue
        ux = ((a @ a) * (b[1] - c[1]) + (b @ b) * (c[1] - a[1]) + (c @ c) * (a[1] - b[1])) / d
        uy = ((a @ a) * (c[0] - b[0]) + (b @ b) * (a[0] - c[0]) + (c @ c) * (b[0] - a[0])) / d
        r3 = np.hypot(P[:, 0] - ux, P[:, 1] - uy)
        if float(np.max(np.abs(r3 - r3[0]))) > 1e-9 * L:
            continue
        xc, yc = impl.quiet(ve.calculate_circle_center, [frame.vertices[i] for i in ids], method=fit)
        rc = np.hypot(P[:, 0] - xc, P[:, 1] - yc)
        if float(np.max(np.abs(rc - rc.mean()))) > 1e-5 * L:
            bad.add(col)
    return bad


def d2_active(frame, fit):
    """finding D2 at work somewhere in this pose: a junction vertex at which the coded versor of some incident interface (internal
    or not, three or more points) differs from the tangent of the code's own fitted circle oriented along the first chord"""
    out = set()
    ends = {int(be.vertices[0].id) for be in frame.internal_big_edges} | {int(be.vertices[-1].id) for be in frame.internal_big_edges}
    for v in ends:
        for i in frame.vertices[v].own_big_edges:
            be = frame.big_edges[i]
            ids = [int(x.id) for x in be.vertices]
            if len(ids) < 3 or v not in (ids[0], ids[-1]):
                continue
            try:
                got = np.asarray(impl.quiet(be.get_versor_from_vertex, v, fit_method=fit), dtype=float)
                xc, yc = impl.quiet(ve.calculate_circle_center, be.vertices, method=fit)
            except Exception:
                continue
            p0 = frame.vertices[v]
            nxt = frame.vertices[ids[1] if ids[0] == v else ids[-2]]
            t = np.array([-(p0.y - yc), (p0.x - xc)], dtype=float)
            if t @ np.array([nxt.x - p0.x, nxt.y - p0.y]) < 0:
                t = -t
            t = t / np.linalg.norm(t)
            if float(np.max(np.abs(t - got))) > 1e-9:
                out.add(v)
    return out
