"""Observation of the real forsys objects (the implementation side of the correspondence)."""
import io
import contextlib
import warnings
import numpy as np

import forsys as fs
import forsys.frames as fframes
import forsys.virtual_edges as ve

from dump import canon_path


def quiet(fn, *a, **k):
    """run fn swallowing prints and warnings of the library"""
    buf = io.StringIO()
    with contextlib.redirect_stdout(buf), warnings.catch_warnings():
        warnings.simplefilter("ignore")
        return fn(*a, **k)


def make_frame(bm_or_dicts, frame_id=0, time=0.0, gt=False):
    if hasattr(bm_or_dicts, "vertices"):
        v, e, c = bm_or_dicts.vertices, bm_or_dicts.edges, bm_or_dicts.cells
    else:
        v, e, c = bm_or_dicts
    return quiet(fframes.Frame, frame_id, v, e, c, time=time, gt=gt)


def observe_frame(frame):
    earr = [[int(x) for x in e] for e in frame.big_edges_list]
    obs = {
        "earr": earr,
        "externalIds": [int(i) for i in frame.external_edges_id],
        "internalVerts": [[int(x) for x in e] for e in frame.internal_big_edges_vertices],
        "internalIdx": [int(be.big_edge_id) for be in frame.internal_big_edges],
        "extFlags": [bool(frame.big_edges[i].external) for i in range(len(earr))],
        "beEdges": [[int(x) for x in frame.big_edges[i].edges] for i in range(len(earr))],
        "beOwnCells": [[int(x) for x in frame.big_edges[i].own_cells] for i in range(len(earr))],
        # `list(set(a) & set(b))[0]` is only defined up to set order when two vertices are joined by two mesh edges
        "beEdgesAmbiguous": [any(len(set(frame.vertices[a].ownEdges) & set(frame.vertices[b].ownEdges)) != 1
                                 for a, b in zip(e, e[1:])) for e in earr],
    }
    try:
        obs["tensionRows"] = [int(i) for i in quiet(frame.get_tensions)["id"].tolist()]
    except AttributeError as ex:
        obs["tensionRows"] = "raises:AttributeError"
    return obs


def cells_of_vertex(cells):
    m = {}
    for cid, c in cells.items():
        for v in c.vertices:
            m.setdefault(v.id, set()).add(cid)
    return m


def graph_paths(vertices, edges, cells):
    """independent computation of the maximal junction-to-junction paths from the mesh-edge graph"""
    adj = {}
    for e in edges.values():
        a, b = e.v1.id, e.v2.id
        adj.setdefault(a, []).append(b)
        adj.setdefault(b, []).append(a)
    junctions = {v for v, nb in adj.items() if len(nb) >= 3}
    paths = set()
    for j in junctions:
        for nb in adj[j]:
            path = [j, nb]
            prev, cur = j, nb
            ok = True
            while cur not in junctions:
                nxt = [x for x in adj[cur] if x != prev]
                if len(nxt) != 1:
                    # dead end or a doubled edge: not a cell boundary path
                    if len(adj[cur]) == 2 and adj[cur][0] == adj[cur][1]:
                        nxt = [prev]
                    else:
                        ok = False
                        break
                prev, cur = cur, nxt[0]
                path.append(cur)
                if len(path) > len(adj) + 2:
                    ok = False
                    break
            if ok:
                paths.add(canon_path(path))
    return paths, junctions
