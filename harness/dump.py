"""Conversion of forsys objects to the driver's JSON vocabulary.  Floats become exact rationals."""
from fractions import Fraction
import numpy as np


def rat(x):
    """exact rational string of a python/numpy number"""
    if isinstance(x, (int, np.integer)):
        return str(int(x))
    if isinstance(x, Fraction):
        fr = x
    else:
        fr = Fraction(float(x))
    return str(fr.numerator) if fr.denominator == 1 else f"{fr.numerator}/{fr.denominator}"


def unrat(s):
    if isinstance(s, (int, float)):
        return Fraction(s)
    if "/" in s:
        n, d = s.split("/")
        return Fraction(int(n), int(d))
    return Fraction(int(s))


def mesh_json(vertices, edges, cells):
    """dump the three dictionaries; `same` flags record object identity evaluated on the real objects"""
    v = []
    for key, vx in vertices.items():
        v.append([int(key), int(vx.id), rat(vx.x), rat(vx.y), [int(e) for e in vx.ownEdges], [int(c) for c in vx.ownCells]])
    e = []
    for key, ed in edges.items():
        same = (vertices.get(ed.v1.id) is ed.v1) and (vertices.get(ed.v2.id) is ed.v2) \
            and (ed.verticesArray[0] is ed.v1) and (ed.verticesArray[1] is ed.v2)
        e.append([int(key), int(ed.id), int(ed.v1.id), int(ed.v2.id), bool(same)])
    c = []
    for key, cl in cells.items():
        same = all(vertices.get(vx.id) is vx for vx in cl.vertices)
        c.append([int(key), int(cl.id), [int(vx.id) for vx in cl.vertices], bool(same)])
    return {"v": v, "e": e, "c": c}


def mesh_snapshot(vertices, edges, cells):
    """plain-data snapshot (for before/after comparisons and replay files)"""
    return {
        "v": {int(k): (float(v.x), float(v.y), list(map(int, v.ownEdges)), list(map(int, v.ownCells))) for k, v in vertices.items()},
        "e": {int(k): (int(e.v1.id), int(e.v2.id)) for k, e in edges.items()},
        "c": {int(k): [int(v.id) for v in c.vertices] for k, c in cells.items()},
    }


def canon_path(p):
    p = [int(x) for x in p]
    r = p[::-1]
    return tuple(p) if tuple(p) <= tuple(r) else tuple(r)
