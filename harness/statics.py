"""Shared construction of static-inference cases (used by C01, C02, C05, C06, C07, C16): a generated tissue with its
closed-form ground truth (true tangents, Maxwell tensions), the real ForSys objects, and the observation of the real
force matrix."""
import math
import numpy as np

import gen
import impl

import forsys as fs
import forsys.virtual_edges as ve
import forsys.vertex as fvertex
import forsys.edge as fedge
import forsys.cell as fcell


class StaticCase:
    pass


def make_topo(rng, case):
    t = case["tissue"]
    if t in ("square", "brick"):
        return gen.lattice_topo(t, case.get("nx", 3), case.get("ny", 3))
    for _ in range(20):
        topo = gen.voronoi_topo(rng, case["sites"], t, min_ridge=case.get("min_ridge", 0.02))
        if topo is not None and topo.ncells() >= 3:
            if case.get("short_ridge"):
                topo = contract_ridge(topo, float(case["short_ridge"]))
            return topo
    return None


def shortest_inner_ridge(topo):
    """the shortest ridge shared by two cells whose two ends both lie on three cells"""
    deg = {}
    for c in topo.cells:
        for j in c:
            deg[j] = deg.get(j, 0) + 1
    cand = [tuple(sorted(r)) for r, cs in topo.ridges.items() if len(cs) == 2 and all(deg.get(j, 0) >= 3 for j in r)]
    if not cand:
        return None
    return min(cand, key=lambda r: (abs(topo.J[r[0]] - topo.J[r[1]]), r))


def contract_ridge(topo, frac):
    """the shortest inner ridge is contracted about its midpoint to the fraction `frac` of the tissue's extent: two junctions much
    closer to each other than to anything else (a very short interface)"""
    r = shortest_inner_ridge(topo)
    if r is None:
        return topo
    a, b = r
    J = np.array(topo.J, dtype=complex)
    ext = max(np.ptp(J.real), np.ptp(J.imag))
    m = 0.5 * (J[a] + J[b]); d = J[a] - J[b]
    f = frac * ext / abs(d)
    if f < 1.0:
        J[a] = m + 0.5 * f * d; J[b] = m - 0.5 * f * d
    return gen.Topo(J, topo.cells, topo.sites)


def choose_subset(topo, rng, case):
    if case.get("cells_ij"):
        # explicit shape on a square lattice (cells are numbered i * ny + j)
        return sorted(int(i) * int(case["ny"]) + int(j) for i, j in case["cells_ij"])
    if case.get("flower"):
        # one cell whose neighbours are all present, together with those neighbours: as many equations as unknowns
        adj = topo.adjacency()
        inner = [c for c in range(topo.ncells()) if all(len(topo.ridges[frozenset(r)]) == 2 for r in zip(topo.cells[c], topo.cells[c][1:] + topo.cells[c][:1]))]
        if not inner:
            return None
        c = inner[int(rng.integers(len(inner)))]
        if case.get("flower_plus"):
            # ... plus one cell of the second ring attached to exactly one petal (it hangs by a single interface); listed last
            petals = sorted(adj[c])
            second = sorted(d for d in range(topo.ncells()) if d != c and d not in petals and sum(1 for q in petals if d in adj[q]) == 1)
            if not second:
                return None
            return [c] + petals + [second[int(rng.integers(len(second)))]]
        return [c] + sorted(adj[c])
    if case.get("around_junction"):
        # the three cells around one junction: three unknowns, one junction (two equations)
        inc = {}
        for c, cyc in enumerate(topo.cells):
            for j in cyc:
                inc.setdefault(j, []).append(c)
        js = sorted(j for j, cs in inc.items() if len(cs) == 3)
        if not js:
            return None
        return sorted(inc[js[int(rng.integers(len(js)))]])
    if case.get("subset"):
        return gen.connected_subsets(topo, rng, max(3, int(round(topo.ncells() * case["subset"]))))
    return None


def storage_choices(case, topo, sub):
    rv = np.random.default_rng([case["seed"], 777, int(case.get("variant", 0))])
    rev = [c for c in range(topo.ncells()) if rv.random() < case.get("p_rev", 0.0)]
    shifts = {c: int(rv.integers(0, 40)) for c in range(topo.ncells())} if case.get("shifts") else None
    a, b = (int(rv.integers(2, 7)), int(rv.integers(-20, 40))) if case.get("relabel") else (1, 0)
    cell_order = None
    if case.get("shuffle_cells"):
        cell_order = list(sub if sub is not None else range(topo.ncells()))
        rv.shuffle(cell_order)
    if case.get("hang_first") and sub is not None and int(case.get("variant", 0)) % 2 == 1:
        # the cell listed last in the subset (the hanging one) is constructed and stored first
        base_ = cell_order if cell_order is not None else list(sub)
        cell_order = [sub[-1]] + [q for q in base_ if q != sub[-1]]
    ea, eb = (int(rv.integers(2, 5)), int(rv.integers(0, 30))) if case.get("relabel") else (1, 0)
    return dict(reverse_cells=rev, shifts=shifts, vmap=(lambda i: a * i + b), cmap=(lambda i: 2 * i + 1) if case.get("relabel") else None,
                emap=(lambda i: ea * i + eb), cell_order=cell_order)


def build_static(case):
    """returns StaticCase or None (rejected)"""
    rng = np.random.default_rng(case["seed"])
    topo = make_topo(rng, case)
    if topo is None:
        return None
    sub = choose_subset(topo, rng, case)
    if sub is None and (case.get("flower") or case.get("around_junction")):
        return None
    mob = gen.Mobius.random(rng, topo, strength=case.get("strength", 1.0)) if case.get("mobius") else None
    angle = case.get("angle", 0.0)
    sim = gen.Similarity(angle=angle, scale=case.get("scale", 1.0), shift=complex(*case.get("shift", (0.0, 0.0))),
                         reflect=case.get("reflect", False), stretch=case.get("stretch", 1.0))
    kmin, kmax = case.get("kmin", 1), case.get("kmax", 15)
    ks = {}
    def k_of(r):
        if r not in ks:
            ks[r] = int(rng.integers(kmin, kmax + 1))
            if case.get("border_kmin") is not None and sum(1 for c_ in topo.ridges[r] if sub is None or c_ in sub) == 1:
                ks[r] = max(ks[r], int(case["border_kmin"]))     # interfaces on the outline keep interior points
        return ks[r]
    # storage choices (orientation, cycle start, ids, insertion order) come from their own stream so that variants of one
    # physical tissue share the geometry stream
    st = storage_choices(case, topo, sub)
    bm = gen.build_mesh(topo, sub, rng=rng, param_mode=case.get("param_mode", "uniform"), k_of_ridge=k_of, mobius=mob, sim=sim,
                        center_method="mean", **st)
    sc = StaticCase()
    sc.case, sc.topo, sc.sub, sc.mob, sc.sim, sc.bm, sc.rng = case, topo, sub, mob, sim, bm, rng
    return sc


def build_static_axis_ridge(case):
    """a straight tissue posed so that one inner two-point interface between two junctions of three cells is EXACTLY parallel to a
    coordinate axis (its tangent has an exactly zero component): the pose is chosen, then the far end is moved by the rounding
    error (1e-16 relative: the force balance of the ground truth is not affected at the tolerance of any check)"""
    probe = build_static(dict(case, angle=0.0))
    if probe is None:
        return None
    rng = np.random.default_rng(case["seed"] + 29)
    cov = impl.cells_of_vertex(probe.bm.cells)
    cand = sorted(tuple(sorted(r)) for r, ids in probe.bm.ridge_points.items()
                  if len(ids) == 2 and len(cov.get(ids[0], ())) >= 3 and len(cov.get(ids[1], ())) >= 3)
    if not cand:
        return None
    a, b = cand[int(rng.integers(len(cand)))]
    pa, pb = probe.bm.vertices[probe.bm.vid_of_junction[a]], probe.bm.vertices[probe.bm.vid_of_junction[b]]
    th = math.atan2(pb.y - pa.y, pb.x - pa.x)
    k = int(rng.integers(4))
    sc = build_static(dict(case, angle=float(-th + k * math.pi / 2)))
    if sc is None:
        return None
    pa, pb = sc.bm.vertices[sc.bm.vid_of_junction[a]], sc.bm.vertices[sc.bm.vid_of_junction[b]]
    if abs(pb.y - pa.y) <= abs(pb.x - pa.x):
        pb.y = pa.y
    else:
        pb.x = pa.x
    sc.axis_ridge = (a, b)
    return sc


def build_lens(case):
    """a tissue with a cell that has exactly two neighbours (a lens): two big cells A (above) and B (below) separated by the
    straight interfaces [3,0] and [1,4] and, between the junctions 0 and 1, by the lens cell whose two sides are exact circular
    arcs (or a straight two-point chord) with different numbers of points — two interfaces between the same pair of junctions.
    Vertex ids are the junction ids; closed-form tangents from the circle through first / middle / last point."""
    rng = np.random.default_rng(case["seed"])
    k1, k2 = int(case["k_upper"]), int(case["k_lower"])
    assert k1 != k2 and k1 >= 1
    h1, h2 = float(case.get("h_upper", 1.5)), float(case.get("h_lower", 1.0))
    sim = gen.Similarity(angle=case.get("angle", 0.0), scale=case.get("scale", 1.0), shift=complex(*case.get("shift", (0.0, 0.0))))
    def arc(h, k, up):
        # k interior points of the circle through (0,0), (4,0) with apex (2, +-h), from (0,0) to (4,0)
        yc = (h * h - 4.0) / (2.0 * h)
        R = h - yc
        a0, a1 = math.atan2(0 - yc, 0 - 2.0), math.atan2(0 - yc, 4.0 - 2.0)
        out = []
        for i in range(1, k + 1):
            t = a0 + (a1 - a0) * i / (k + 1)
            out.append(complex(2.0 + R * math.cos(t), (yc + R * math.sin(t)) * (1 if up else -1)))
        return out
    pts = {0: 0j, 1: 4 + 0j, 3: -3 + 0j, 4: 7 + 0j, 5: 7 + 4j, 6: -3 + 4j, 7: -3 - 4j, 8: 7 - 4j}
    upper = arc(h1, k1, True)
    lower = arc(h2, k2, False) if k2 > 0 else []
    nid = 9
    up_ids, lo_ids = [], []
    for z in upper:
        pts[nid] = z; up_ids.append(nid); nid += 1
    for z in lower:
        pts[nid] = z; lo_ids.append(nid); nid += 1
    cyc = {0: [3, 0] + up_ids + [1, 4, 5, 6], 1: [3, 7, 8, 4, 1] + lo_ids[::-1] + [0], 2: [0] + lo_ids + [1] + up_ids[::-1]}
    order = list(cyc)
    if case.get("shuffle_cells"):
        rng.shuffle(order)
    bm = gen.BuiltMesh()
    for k, z in pts.items():
        w = sim(z)
        bm.vertices[k] = fvertex.Vertex(k, float(np.real(w)), float(np.imag(w)))
        bm.vid_phys[k] = ("J", k)
        bm.vid_of_junction[k] = k
    seen = {}
    for cid in order:
        c = cyc[cid]
        for a, b in zip(c, c[1:] + c[:1]):
            if frozenset((a, b)) not in seen:
                seen[frozenset((a, b))] = len(bm.edges)
                bm.edges[len(bm.edges)] = fedge.SmallEdge(len(bm.edges), bm.vertices[a], bm.vertices[b])
    for cid in order:
        c = cyc[cid]
        if case.get("p_rev", 0.0) and rng.random() < case["p_rev"]:
            c = c[::-1]
        sft = int(rng.integers(len(c))) if case.get("shifts") else 0
        c = c[sft:] + c[:sft]
        bm.cells[cid] = fcell.Cell(cid, [bm.vertices[v] for v in c], center_method="mean")
        bm.cell_phys[cid] = cid
    sc = StaticCase()
    sc.case, sc.topo, sc.sub, sc.mob, sc.sim, sc.bm, sc.rng = case, None, None, "exact arcs", sim, bm, rng
    # closed-form tangents keyed by (junction, other junction, number of points)
    dirs = {}
    def tangent(ids, at_first):
        P = [complex(bm.vertices[i].x, bm.vertices[i].y) for i in (ids if at_first else ids[::-1])]
        if len(P) == 2:
            w = P[1] - P[0]
        else:
            a, b, c = P[0], P[len(P) // 2], P[-1]
            d = 2 * (a.real * (b.imag - c.imag) + b.real * (c.imag - a.imag) + c.real * (a.imag - b.imag))
            ux = ((abs(a) ** 2) * (b.imag - c.imag) + (abs(b) ** 2) * (c.imag - a.imag) + (abs(c) ** 2) * (a.imag - b.imag)) / d
            uy = ((abs(a) ** 2) * (c.real - b.real) + (abs(b) ** 2) * (a.real - c.real) + (abs(c) ** 2) * (b.real - a.real)) / d
            r = P[0] - complex(ux, uy)
            w = r * 1j
            if (w * (P[1] - P[0]).conjugate()).real < 0:
                w = -w
        return w / abs(w)
    for ids in ([0] + up_ids + [1], [0] + lo_ids + [1], [3, 0], [1, 4]):
        dirs[(ids[0], ids[-1], len(ids))] = tangent(ids, True)
        dirs[(ids[-1], ids[0], len(ids))] = tangent(ids, False)
    sc.explicit_dirs = dirs
    return sc


def true_direction(sc, ja, jb, npoints):
    """closed-form unit tangent at junction ja of the interface towards junction jb (complex number)"""
    if getattr(sc, "explicit_dirs", None) is not None:
        return sc.explicit_dirs[(ja, jb, npoints)]
    topo = sc.topo
    if npoints == 2:
        # two points determine a line: the direction is the chord between the (mapped) junctions
        f = (lambda z: z) if sc.mob is None else sc.mob
        w = sc.sim(f(topo.J[jb])) - sc.sim(f(topo.J[ja]))
    else:
        d = topo.J[jb] - topo.J[ja]
        if sc.mob is not None:
            d = sc.mob.deriv(topo.J[ja]) * d
        w = sc.sim.lin(d)
    return w / abs(w)


def solve_setup(sc, fit="dlite", ignore_four=False, angle_limit=None):
    frame = impl.make_frame(sc.bm)
    f = fs.ForSys({0: frame})
    kw = {}
    if angle_limit is not None:
        kw["angle_limit"] = angle_limit
    if ignore_four is not None:
        kw["metadata"] = {"ignore_four": ignore_four}
    impl.quiet(f.build_force_matrix, when=0, circle_fit_method=fit, **kw)
    sc.frame, sc.forsys, sc.fm = frame, f, f.force_matrices[0]
    return sc


def interface_truth(sc):
    """per interface (list of vertex ids of frame.big_edges_list): the two topo junctions it joins, the cells on its sides,
    Maxwell tension; keyed by position"""
    bm, topo = sc.bm, sc.topo
    jun_of_vid = {vid: j for j, vid in bm.vid_of_junction.items()}
    info = []
    for e in sc.frame.big_edges_list:
        e = [int(x) for x in e]
        ja, jb = jun_of_vid.get(e[0]), jun_of_vid.get(e[-1])
        info.append({"ids": e, "ja": ja, "jb": jb})
    return info


def centers(sc, fit):
    out = []
    for i in range(len(sc.frame.big_edges_list)):
        be = sc.frame.big_edges[i]
        try:
            xc, yc = impl.quiet(ve.calculate_circle_center, be.vertices, method=fit)
            xc, yc = float(xc), float(yc)
        except FloatingPointError:
            xc, yc = float("inf"), float("inf")
        if not (math.isfinite(xc) and math.isfinite(yc)):
            # exactly collinear points: the fit has no finite centre.  Such an interface is never evaluated by the code
            # for a used junction (it would raise); a placeholder keeps the request well-formed.
            xc, yc = 0.0, 0.0
        out.append((xc, yc))
    return out


def build_series(case, nframes=2, times=None, disp=None, renumber=False):
    """time series of one tissue: frame t is the tissue with junctions displaced by disp[t] (array over topo junctions,
    complex, in the *mapped* coordinates' units before the similarity); interior points follow by re-sampling the
    displaced ridges.  Returns list of StaticCase (one per frame) sharing topo/subset."""
    base = build_static(case)
    if base is None:
        return None
    out = []
    for t in range(nframes):
        c = dict(case)
        sc = StaticCase()
        rng = np.random.default_rng(case["seed"])     # same draws → same k per ridge, same params
        topo = make_topo(rng, case)
        sub = choose_subset(topo, rng, case)
        mob = gen.Mobius.random(rng, topo, strength=case.get("strength", 1.0)) if case.get("mobius") else None
        sim = gen.Similarity(angle=case.get("angle", 0.0), scale=case.get("scale", 1.0), shift=complex(*case.get("shift", (0.0, 0.0))),
                             reflect=case.get("reflect", False), stretch=case.get("stretch", 1.0))
        kmin, kmax = case.get("kmin", 1), case.get("kmax", 15)
        ks = {}
        def k_of(r, ks=ks, rng=rng):
            if r not in ks:
                ks[r] = int(rng.integers(kmin, kmax + 1))
            return ks[r]
        if disp is not None and disp[t] is not None:
            topo = gen.Topo(topo.J + disp[t], topo.cells, topo.sites)
        if renumber == "zero":
            # ids shifted cyclically so that one junction of every frame carries the id 0
            jz = int(np.random.default_rng(case["seed"] + 1000 + t).integers(0, 3))
            vmap = (lambda i, jz=jz: (i + 100000 - jz) % 100000)
        elif renumber == "dense":
            # the junctions (created first) of every frame get a permutation of the same small id range: ids of one frame coincide
            # with ids of other vertices of the next frame
            r2 = np.random.default_rng(case["seed"] + 1000 + t)
            m_ = 61
            perm = r2.permutation(m_)
            vmap = (lambda i, perm=perm, m_=m_: int(perm[i % m_]) + m_ * (i // m_))
        elif renumber == "swap_short":
            # every frame numbered alike, except that in odd frames the two ends of the shortest inner interface exchange their ids
            # (creation order does not depend on the ids: the un-renumbered probe gives the two creation indices)
            r_ = shortest_inner_ridge(base.topo)
            if r_ is None or r_[0] not in base.bm.vid_of_junction or r_[1] not in base.bm.vid_of_junction:
                return None
            ca, cb = base.bm.vid_of_junction[r_[0]], base.bm.vid_of_junction[r_[1]]
            vmap = (lambda i, ca=ca, cb=cb, odd=bool(t % 2): (cb if i == ca else ca if i == cb else i) if odd else i)
        elif renumber:
            r2 = np.random.default_rng(case["seed"] + 1000 + t)
            perm = r2.permutation(4000)
            vmap = (lambda i, perm=perm: int(perm[i % 4000]) + 4000 * (i // 4000))
        else:
            vmap = None
        st = {}
        if case.get("storage_in_series"):
            st = storage_choices(case, topo, sub)
            st.pop("vmap")
        bm = gen.build_mesh(topo, sub, rng=rng, param_mode="uniform", k_of_ridge=k_of, mobius=mob, sim=sim, vmap=vmap, center_method="mean", **st)
        sc.case, sc.topo, sc.sub, sc.mob, sc.sim, sc.bm, sc.rng = c, topo, sub, mob, sim, bm, rng
        out.append(sc)
    return out


def make_forsys(series, times=None, cm=False, initial_guess=None):
    frames = {}
    for t, sc in enumerate(series):
        sc.frame = impl.make_frame(sc.bm, frame_id=t, time=(times[t] if times else float(t)))
        frames[t] = sc.frame
    kw = {}
    if initial_guess is not None:
        kw["initial_guess"] = initial_guess
    f = impl.quiet(fs.ForSys, frames, cm=cm, **kw)
    for sc in series:
        sc.forsys = f
    return f


def clone_displaced(bm, newpos, vmap=None):
    """a copy of the mesh with the same topology, vertices at `newpos` (vertex id -> (x, y); others unchanged) and ids mapped
    by `vmap`; returns a BuiltMesh whose vid_of_junction / vid_phys follow the new ids"""
    out = gen.BuiltMesh()
    vmap = vmap or (lambda i: i)
    import forsys.vertex as fvertex
    import forsys.edge as fedge
    import forsys.cell as fcell
    idm = {}
    for k, vx in bm.vertices.items():
        nid = vmap(int(k))
        idm[int(k)] = nid
        x, y = newpos.get(int(k), (vx.x, vx.y))
        out.vertices[nid] = fvertex.Vertex(nid, float(x), float(y))
        out.vid_phys[nid] = bm.vid_phys[int(k)]
    for k, ed in bm.edges.items():
        out.edges[int(k)] = fedge.SmallEdge(int(k), out.vertices[idm[int(ed.v1.id)]], out.vertices[idm[int(ed.v2.id)]])
    for k, cl in bm.cells.items():
        out.cells[int(k)] = fcell.Cell(int(k), [out.vertices[idm[int(v.id)]] for v in cl.vertices], center_method="mean")
    out.vid_of_junction = {j: idm[v] for j, v in bm.vid_of_junction.items()}
    out.cid_of_cell = dict(bm.cid_of_cell)
    out.cell_phys = dict(bm.cell_phys)
    out.ridge_points = {r: [idm[v] for v in ids] for r, ids in bm.ridge_points.items()}
    out.idmap = idm
    return out
